//! dxmc — bounded exhaustive model checking of frozenlib/derive-ex (see /verif/DESIGN.md).
//! Invoked through /verif/check, which syncs and builds everything first.

mod explore;
mod expand;
mod gen;
mod refmodel;
mod report;
mod runner;
mod xrun;
mod seeds;
mod conform;

mod cmpx;
mod c01;
mod c02;
mod c03;
mod c04;
mod c05;
mod c06;
mod c07;
mod c08;
mod c09;
mod c10;
mod c11;
mod c12;
mod c13;
mod c14;
mod c15;
mod c16;
mod c17;
mod c18;
mod c19;
mod c20;

use report::{machinery, Report, Tier};

pub struct Ctx {
    pub tier: Tier,
    pub replay: Option<String>,
}

fn main() {
    let args: Vec<String> = std::env::args().skip(1).collect();
    if args.is_empty() {
        machinery("usage: dxmc <Cxx> [--tier quick|thorough] [--replay <path>]");
    }
    let id = args[0].clone();
    let mut tier = match std::env::var("VERIF_TIER").ok().as_deref() {
        Some("thorough") => Tier::Thorough,
        _ => Tier::Quick,
    };
    let mut replay = None;
    let mut i = 1;
    while i < args.len() {
        match args[i].as_str() {
            "--tier" => {
                i += 1;
                tier = match args.get(i).map(|s| s.as_str()) {
                    Some("quick") => Tier::Quick,
                    Some("thorough") => Tier::Thorough,
                    _ => machinery("--tier needs quick|thorough"),
                };
            }
            "--replay" => {
                i += 1;
                replay = Some(args.get(i).cloned().unwrap_or_else(|| machinery("--replay needs a path")));
            }
            other => machinery(&format!("unknown argument {other}")),
        }
        i += 1;
    }
    expand::silence_panics();
    if id == "C16" && std::env::var("DX_C16_WORKER").is_err() {
        c16::supervise(&args, tier, replay.as_ref());
    }
    let ctx = Ctx { tier, replay };
    let mut rep = Report::new(&id, tier);
    rep.replay_mode = ctx.replay.is_some();
    match id.as_str() {
        "C01" => c01::run(&ctx, &mut rep),
        "C02" => c02::run(&ctx, &mut rep),
        "C03" => c03::run(&ctx, &mut rep),
        "C04" => c04::run(&ctx, &mut rep),
        "C05" => c05::run(&ctx, &mut rep),
        "C06" => c06::run(&ctx, &mut rep),
        "C07" => c07::run(&ctx, &mut rep),
        "C08" => c08::run(&ctx, &mut rep),
        "C09" => c09::run(&ctx, &mut rep),
        "C10" => c10::run(&ctx, &mut rep),
        "C11" => c11::run(&ctx, &mut rep),
        "C12" => c12::run(&ctx, &mut rep),
        "C13" => c13::run(&ctx, &mut rep),
        "C14" => c14::run(&ctx, &mut rep),
        "C15" => c15::run(&ctx, &mut rep),
        "C16" => c16::run(&ctx, &mut rep),
        "C17" => c17::run(&ctx, &mut rep),
        "C18" => c18::run(&ctx, &mut rep),
        "C19" => c19::run(&ctx, &mut rep),
        "C20" => c20::run(&ctx, &mut rep),
        _ => machinery(&format!("no check registered for {id}")),
    }
    rep.finish();
}
