//! C08 — operators derived from a struct act field-wise in all reference forms.
//! Channel X with the free-monoid type `Fm` (records operand order and reference forms)
//! and wrapping integers (DESIGN.md 5/C08).

use crate::expand::Entry;
use crate::explore::{explore, replay, Ch};
use crate::gen::*;
use crate::report::Report;
use crate::xrun::{run_and_compare, XCase};
use crate::Ctx;
use serde_json::json;
use std::collections::BTreeSet;

pub const BIN: [(&str, &str, &str); 10] = [("Add", "add", "+"), ("Sub", "sub", "-"), ("Mul", "mul", "*"), ("Div", "div", "/"), ("Rem", "rem", "%"), ("BitAnd", "bitand", "&"), ("BitOr", "bitor", "|"), ("BitXor", "bitxor", "^"), ("Shl", "shl", "<<"), ("Shr", "shr", ">>")];
pub const UN: [(&str, &str, &str); 2] = [("Neg", "neg", "-"), ("Not", "not", "!")];

#[derive(Clone, Copy, PartialEq, Eq, Debug)]
enum OpKind {
    Binary(usize),
    Assign(usize),
    Unary(usize),
}
impl OpKind {
    fn trait_name(self) -> String {
        match self {
            OpKind::Binary(i) => BIN[i].0.to_string(),
            OpKind::Assign(i) => format!("{}Assign", BIN[i].0),
            OpKind::Unary(i) => UN[i].0.to_string(),
        }
    }
}

#[derive(Clone, Copy, PartialEq, Eq, Debug)]
enum Flavour {
    Fm,
    GenericFm,
    WrapI8,
    /// `X<T: HasA>` whose fields have the projection type `T::A` (T := Fm, A = Fm)
    AssocFm,
}

#[derive(Clone, Debug)]
struct Case {
    vector: Vec<usize>,
    op: OpKind,
    body: VShape,
    flavour: Flavour,
    entry: Entry,
    /// named fields are raw identifiers
    raw: bool,
    /// the trait sits in a SECOND stacked list: 1 `#[derive_ex(..)]`, 2 `#[derive_ex::derive_ex(..)]`,
    /// 3 `#[::derive_ex::derive_ex(..)]` (the path-qualified ones under the attribute entry only)
    stacked: usize,
    /// 0 plain; 1 the definition comes out of a `macro_rules!` macro, the field type being passed in as an `ident`
    /// fragment; 2 declared where-clause `where Option<Self>: Keep` (Keep is implemented for Option<X> only);
    /// 3 an additional last field of type `Tag<Self>`; 4 (generic flavour) a lifetime parameter named `'a` and an
    /// additional last field `Tag<&'a T>`; 5 a const parameter declared before the type parameter; 6 `X<const K: usize>`
    /// whose fields have the type `FmN<K>` (operators for K = 2 only: the field-type bound is indispensable);
    /// 7 (generic flavour) `X<T: Scale<Self>>` - `Self` in an inline parameter bound
    extra: usize,
}

fn gen(ch: &mut Ch, thorough: bool) -> Option<Case> {
    let mut ops = Vec::new();
    for i in 0..10 {
        ops.push(OpKind::Binary(i));
    }
    for i in 0..10 {
        ops.push(OpKind::Assign(i));
    }
    for i in 0..2 {
        ops.push(OpKind::Unary(i));
    }
    let op = *ch.of(&ops);
    let bodies: Vec<VShape> = if thorough { vshape_menu(4) } else { vec![VShape { kind: SKind::Unit, n: 0 }, VShape { kind: SKind::Tuple, n: 1 }, VShape { kind: SKind::Tuple, n: 2 }, VShape { kind: SKind::Named, n: 2 }, VShape { kind: SKind::Named, n: 3 }, VShape { kind: SKind::Tuple, n: 0 }] };
    let body = ch.of(&bodies).clone();
    let flavour = *ch.of(&[Flavour::Fm, Flavour::GenericFm, Flavour::WrapI8, Flavour::AssocFm]);
    let entry = *ch.of(&Entry::BOTH);
    let raw = ch.flag();
    let stacked = ch.pick(4);
    let extra = ch.pick(9);
    if stacked >= 2 && entry == Entry::Derive {
        return None;
    }
    if extra != 0 && (raw || stacked != 0 || flavour != (if matches!(extra, 4 | 5 | 7 | 8) { Flavour::GenericFm } else { Flavour::Fm }) || body.n == 0 || entry == Entry::Derive && !thorough) {
        return None;
    }
    if !thorough && extra != 0 && !(body.n == 2) {
        return None;
    }
    // 8: an additional last field `TagC<Self, T>` whose unary operators are conditional on T (unary traits only)
    if extra == 8 && !matches!(op, OpKind::Unary(_)) {
        return None;
    }
    if raw && !(body.kind == SKind::Named && body.n == 2 && flavour == Flavour::Fm && entry == Entry::Attr && stacked == 0) {
        return None;
    }
    if stacked != 0 && !(body.n == 2 && body.kind == SKind::Tuple && flavour == Flavour::Fm) {
        return None;
    }
    if flavour != Flavour::Fm && body.n == 0 {
        return None;
    }
    if flavour == Flavour::WrapI8 {
        // Wrapping<i8> shifts take usize, not Self
        if matches!(op, OpKind::Binary(8) | OpKind::Binary(9) | OpKind::Assign(8) | OpKind::Assign(9)) {
            return None;
        }
        if !thorough && !(body.n == 2 && body.kind == SKind::Tuple) {
            return None;
        }
    }
    if !thorough && matches!(flavour, Flavour::GenericFm | Flavour::AssocFm) && !(body.n == 2) {
        return None;
    }
    if !thorough && entry == Entry::Derive && !(body.n == 2 && body.kind == SKind::Named && flavour == Flavour::Fm) {
        return None;
    }
    Some(Case { vector: ch.vector(), op, body, flavour, entry, raw, stacked, extra })
}

/// wrapping i8 reference semantics
fn wrap_bin(i: usize, a: i8, b: i8) -> i8 {
    match i {
        0 => a.wrapping_add(b),
        1 => a.wrapping_sub(b),
        2 => a.wrapping_mul(b),
        3 => a.wrapping_div(b),
        4 => a.wrapping_rem(b),
        5 => a & b,
        6 => a | b,
        7 => a ^ b,
        _ => unreachable!(),
    }
}
fn wrap_un(i: usize, a: i8) -> i8 {
    match i {
        0 => a.wrapping_neg(),
        _ => !a,
    }
}
/// operand value sets: three "values" of the whole struct; field fi of value k
fn int_val(k: usize, fi: usize) -> i8 {
    [[100i8, -7, 33, 5], [3, 5, -128, 9], [-2, 127, 7, -1]][k][fi]
}
fn fm_val(k: usize, fi: usize) -> String {
    format!("{}{}", ["a", "b", "c"][k], fi)
}

fn build(c: &Case, tier: &str) -> XCase {
    set_raw_field_names(c.raw);
    let r = build_inner(c, tier);
    set_raw_field_names(false);
    r
}

fn build_inner(c: &Case, tier: &str) -> XCase {
    let sh = Shape { is_enum: false, variants: vec![c.body.clone()] };
    let n = c.body.n;
    let is_n = c.extra == 6;
    let fty = match c.flavour {
        Flavour::Fm if is_n => "::dxrt::FmN<K>",
        Flavour::Fm => "Fm",
        Flavour::GenericFm => "T",
        Flavour::WrapI8 => "::core::num::Wrapping<i8>",
        Flavour::AssocFm => "T::A",
    };
    let ty = |_: usize, _: usize| fty.to_string();
    let noattrs = |_: usize, _: usize| Vec::new();
    let mut item = sh.item(match c.flavour { Flavour::GenericFm if c.extra == 4 => "<'a, T>", Flavour::GenericFm if c.extra == 5 => "<const K: usize, T>", Flavour::GenericFm if c.extra == 7 => "<T: Scale<Self>>", Flavour::GenericFm => "<T>", Flavour::AssocFm => "<T: HasA>", Flavour::Fm if is_n => "<const K: usize>", _ => "" }, &ty, &noattrs);
    // an additional last field that takes part in every operator without logging (Tag implements all forms)
    let tag_ty = match c.extra { 3 => Some("::dxrt::probe::Tag<Self>"), 4 => Some("::dxrt::probe::Tag<&'a T>"), 5 => Some("::dxrt::probe::Tag<[u8; K]>"), 8 => Some("::dxrt::probe::TagC<Self, T>"), _ => None };
    if let (Some(t), Body::Struct(f)) = (tag_ty, &mut item.body) {
        match f {
            FieldsDef::Tuple(v) => v.push(FieldDef::tuple(t)),
            FieldsDef::Named(v) => v.push(FieldDef::named("tag", t)),
            FieldsDef::Unit => {}
        }
    }
    let with_tag = |ctor: String| -> String {
        if tag_ty.is_none() {
            return ctor;
        }
        let tag = if c.extra == 8 { "::dxrt::probe::TagC(::core::marker::PhantomData, ::core::marker::PhantomData)" } else { "::dxrt::probe::Tag(::core::marker::PhantomData)" };
        if let Some(p) = ctor.strip_suffix(" }") { format!("{p}, tag: {tag} }}") } else if let Some(p) = ctor.strip_suffix(')') { format!("{p}, {tag})") } else { ctor }
    };
    if c.extra == 2 {
        item.where_ = "where Option<Self>: Keep".into();
    }
    let tr = c.op.trait_name();
    let lists = match c.stacked { 0 => format!("#[derive_ex({tr})]"), 1 => format!("#[derive_ex(Clone)]\n#[derive_ex({tr})]"), 2 => format!("#[derive_ex(Clone)]\n#[derive_ex::derive_ex({tr})]"), _ => format!("#[derive_ex(Clone)]\n#[::derive_ex::derive_ex({tr})]") };
    let head = match c.entry {
        Entry::Attr => lists,
        Entry::Derive => format!("#[derive(Ex)]\n{lists}"),
    };
    let selfty = if c.extra == 4 { "X<'static, Fm>" } else if c.extra == 5 { "X<3, Fm>" } else if is_n { "X<2>" } else if matches!(c.flavour, Flavour::GenericFm | Flavour::AssocFm) { "X<Fm>" } else { "X" };
    let is_int = c.flavour == Flavour::WrapI8;
    let mut s = String::new();
    s.push_str("use derive_ex::{derive_ex, Ex};\nuse dxrt::{Fm, take_log, take_log_str};\n");
    if c.flavour == Flavour::AssocFm {
        s.push_str("pub trait HasA { type A; }\nimpl HasA for Fm { type A = Fm; }\n");
    }
    if c.extra == 2 {
        s.push_str("pub trait Keep {}\nimpl Keep for Option<X> {}\n");
    }
    if c.extra == 7 {
        s.push_str("pub trait Scale<W> {}\nimpl Scale<X<Fm>> for Fm {}\n");
    }
    if c.extra == 1 {
        // the field type reaches the definition as an `ident` fragment of the macro call
        s.push_str(&format!("macro_rules! mk_item {{ ($t:ident) => {{ {head}\n{} }} }}\nmk_item!(Fm);\ntype S = {selfty};\n", item.print().replace("Fm", "$t")));
    } else {
        s.push_str(&format!("{head}\n{}\ntype S = {selfty};\n", item.print()));
    }
    // mk(k): operand value k
    s.push_str("fn mk(k: usize) -> S {\n    match k {\n");
    for k in 0..3 {
        let args: Vec<String> = (0..n).map(|fi| if is_int { format!("::core::num::Wrapping({}i8)", int_val(k, fi)) } else if is_n { format!("::dxrt::FmN(Fm::new({:?}))", fm_val(k, fi)) } else { format!("Fm::new({:?})", fm_val(k, fi)) }).collect();
        s.push_str(&format!("        {k} => {},\n", with_tag(sh.ctor(0, &args))));
    }
    s.push_str("        _ => unreachable!(),\n    }\n}\n");
    let parts: Vec<String> = (0..n).map(|fi| if is_int { format!("x.{}.0.to_string()", sh.member(0, fi)) } else if is_n { format!("x.{}.0.0.clone()", sh.member(0, fi)) } else { format!("x.{}.0.clone()", sh.member(0, fi)) }).collect();
    s.push_str(&format!("fn view(x: &S) -> String {{ let v: Vec<String> = vec![{}]; v.join(\",\") }}\n", parts.join(", ")));
    s.push_str("pub fn run() -> String {\n    let mut out = String::new();\n    for i in 0..3usize { for j in 0..3usize {\n");
    let mut exp = String::new();
    // expected helpers
    let fview = |f: &dyn Fn(usize) -> String| -> String { (0..n).map(|fi| f(fi)).collect::<Vec<_>>().join(",") };
    let opview = |k: usize| -> String { fview(&|fi| if is_int { int_val(k, fi).to_string() } else { fm_val(k, fi) }) };
    match c.op {
        OpKind::Binary(bi) => {
            let f = BIN[bi].1;
            for (l, r) in [(false, false), (false, true), (true, false), (true, true)] {
                let le = if l { "&a" } else { "a" };
                let re = if r { "&b" } else { "b" };
                let lt = if l { "&S" } else { "S" };
                let rt = if r { "&S" } else { "S" };
                s.push_str(&format!("        {{ let a = mk(i); let b = mk(j); let (a2, b2) = (mk(i), mk(j)); take_log(); let r: S = <{lt} as ::core::ops::{tr}<{rt}>>::{f}({le}, {re}); out.push_str(&format!(\"{l}{r} {{}}{{}}:{{}}|{{}}|{{}}|{{}};\", i, j, view(&r), take_log_str(), view(&a2), view(&b2))); }}\n", l = l as u8, r = r as u8));
            }
        }
        OpKind::Assign(bi) => {
            let f = format!("{}_assign", BIN[bi].1);
            for r in [false, true] {
                let re = if r { "&b" } else { "b" };
                let rt = if r { "&S" } else { "S" };
                s.push_str(&format!("        {{ let mut a = mk(i); let b = mk(j); let b2 = mk(j); take_log(); <S as ::core::ops::{tr}<{rt}>>::{f}(&mut a, {re}); out.push_str(&format!(\"{r} {{}}{{}}:{{}}|{{}}|{{}};\", i, j, view(&a), take_log_str(), view(&b2))); }}\n", r = r as u8));
            }
        }
        OpKind::Unary(ui) => {
            let f = UN[ui].1;
            for l in [false, true] {
                let le = if l { "&a" } else { "a" };
                let lt = if l { "&S" } else { "S" };
                s.push_str(&format!("        if j == 0 {{ let a = mk(i); let a2 = mk(i); take_log(); let r: S = <{lt} as ::core::ops::{tr}>::{f}({le}); out.push_str(&format!(\"{l} {{}}:{{}}|{{}}|{{}};\", i, view(&r), take_log_str(), view(&a2))); }}\n", l = l as u8));
            }
        }
    }
    s.push_str("    } }\n    out\n}\n");
    // reference
    for i in 0..3 {
        for j in 0..3 {
            match c.op {
                OpKind::Binary(bi) => {
                    let sym = BIN[bi].2;
                    for (l, r) in [(false, false), (false, true), (true, false), (true, true)] {
                        let res = fview(&|fi| if is_int { wrap_bin(bi, int_val(i, fi), int_val(j, fi)).to_string() } else { format!("({}{}{})", fm_val(i, fi), sym, fm_val(j, fi)) });
                        let log = if is_int { String::new() } else { (0..n).map(|_| format!("{}({},{})", sym, if l { "r" } else { "v" }, if r { "r" } else { "v" })).collect::<Vec<_>>().join(",") };
                        exp.push_str(&format!("{}{} {}{}:{}|{}|{}|{};", l as u8, r as u8, i, j, res, log, opview(i), opview(j)));
                    }
                }
                OpKind::Assign(bi) => {
                    let sym = BIN[bi].2;
                    for r in [false, true] {
                        let res = fview(&|fi| if is_int { wrap_bin(bi, int_val(i, fi), int_val(j, fi)).to_string() } else { format!("({}{}={})", fm_val(i, fi), sym, fm_val(j, fi)) });
                        let log = if is_int { String::new() } else { (0..n).map(|_| format!("{}=({})", sym, if r { "r" } else { "v" })).collect::<Vec<_>>().join(",") };
                        exp.push_str(&format!("{} {}{}:{}|{}|{};", r as u8, i, j, res, log, opview(j)));
                    }
                }
                OpKind::Unary(ui) => {
                    if j == 0 {
                        let sym = UN[ui].2;
                        for l in [false, true] {
                            let res = fview(&|fi| if is_int { wrap_un(ui, int_val(i, fi)).to_string() } else { format!("({}{})", sym, fm_val(i, fi)) });
                            let log = if is_int { String::new() } else { (0..n).map(|_| format!("{}({})", sym, if l { "r" } else { "v" })).collect::<Vec<_>>().join(",") };
                            exp.push_str(&format!("{} {}:{}|{}|{};", l as u8, i, res, log, opview(i)));
                        }
                    }
                }
            }
        }
    }
    let mut atoms = BTreeSet::new();
    atoms.insert(format!("trait={tr}"));
    atoms.insert(format!("entry={}", c.entry.name()));
    atoms.insert(format!("flavour={:?}", c.flavour));
    atoms.insert(format!("body={}", sh.describe()));
    atoms.insert(format!("raw={}", c.raw));
    atoms.insert(format!("stacked={}", c.stacked));
    atoms.insert(format!("extra={}", ["none", "macro_rules-generated", "where-nested-Self", "last-field-Tag<Self>", "lifetime-'a-and-Tag<&'a T>", "const-parameter-declared-before-the-type-parameter", "field-type-mentions-only-a-const-parameter", "Self-in-an-inline-parameter-bound", "last-field-TagC<Self,T>-conditional-on-T"][c.extra]));
    XCase {
        text: format!("{} {}{}{} {}", c.entry.name(), ["", "stacked ", "stacked-qualified ", "stacked-absolute "][c.stacked], ["", "macro_rules-generated ", "", "", "", "", "", "", ""][c.extra], tr, item.print()),
        code: s,
        expected: exp,
        atoms,
        nontrivial: n >= 1,
        detail: json!({"vector": c.vector, "tier": tier, "entry": c.entry.name(), "trait": tr, "item": item.print()}),
        what: format!("derive_ex({tr}) via {} on {} of {:?}", c.entry.name(), sh.describe(), c.flavour),
        inner: 9 * 4,
        symptom: "operator-result-or-call-trace-differs".into(),
        must_compile: true,
    }
}

pub fn run(ctx: &Ctx, rep: &mut Report) {
    let thorough = ctx.tier.is_thorough();
    rep.rule = "terminal state = (one of the 22 operator traits, struct body shape, field flavour in {Fm free monoid, generic T := Fm, Wrapping<i8>, projection type T::A of X<T: HasA>}, plain / generated by a macro_rules! macro with the field type as an ident fragment / declared where-clause with a nested `Self` / additional field of type Tag<Self> / lifetime parameter 'a with a field Tag<&'a T>, raw names, stacked lists, entry point); inner enumeration = all 9 ordered operand pairs of a 3-value domain x every owned/reference form of the trait; distinct by program text; non-trivial = at least one field".into();
    rep.assumptions = vec!["reference: field i of the result is op(lhs_i, rhs_i) with the left operand on the left; every reference form equals the owned form; borrowed operands unchanged; Fm logs exactly one call per field with the expected (lhs_is_ref, rhs_is_ref)".into()];
    let mut cases = Vec::new();
    if let Some(p) = &ctx.replay {
        let v: serde_json::Value = serde_json::from_str(&std::fs::read_to_string(p).expect("replay file")).expect("replay json");
        let vec: Vec<usize> = v["case"]["vector"].as_array().unwrap().iter().map(|x| x.as_u64().unwrap() as usize).collect();
        let th = v["case"]["tier"] == "thorough";
        cases.push(replay(|ch| gen(ch, th), &vec).unwrap_or_else(|| crate::report::machinery("replayed vector is pruned")));
    } else {
        let st = explore(|ch| gen(ch, thorough), |_, c| cases.push(c));
        rep.stats.add(&st);
    }
    let mut x: Vec<XCase> = cases.iter().map(|c| build(c, ctx.tier.name())).collect();
    if ctx.replay.is_none() {
        // explicit bounds on derived operators: a per-trait bound without `..` replaces the shared bound of the list; a
        // `..` that is not the last argument still continues; a stop on one field does not reach the later fields
        for (entry, ex) in [("attr", ""), ("derive", "#[derive(Ex)] ")] {
            let progs: [(&str, String, &str, &str); 3] = [
                ("per-trait bound() next to a shared bound the instantiation does not satisfy", format!("{ex}#[derive_ex(Sub(bound()), SubAssign(bound()), Neg(bound()), Add, bound(T: ::core::marker::Copy, ..))] pub struct X<T> {{ pub a: Tag<T>, pub b: Tag<T> }}"), "{ let mk = || X::<String> { a: Tag(::core::marker::PhantomData), b: Tag(::core::marker::PhantomData) }; let _ = &mk() - &mk(); let _ = mk() - &mk(); let _ = -&mk(); let mut y = mk(); y -= &mk(); y -= mk(); format!(\"{};{}\", dxrt::impls!(X<String>: ::core::ops::Add<X<String>>), dxrt::impls!(X<u8>: ::core::ops::Add<X<u8>>)) }", "false;true"),
                ("bound(.., T: Mk): the default marker is not the last argument", format!("pub trait Mk {{}}\nimpl Mk for Fm {{}}\n{ex}#[derive_ex(Sub, SubAssign, Neg, bound(.., T: Mk))] pub struct X<T, U> {{ pub a: T, pub b: U, pub c: T }}"), "{ let mk = |s: &str| X::<Fm, Fm> { a: Fm::new(s), b: Fm::new(\"u\"), c: Fm::new(\"c\") }; let r = &mk(\"l\") - &mk(\"r\"); let n = -mk(\"n\"); let mut y = mk(\"y\"); y -= &mk(\"z\"); format!(\"{};{};{};{}\", r.a.0, n.b.0, y.c.0, dxrt::impls!(X<u8, Fm>: ::core::ops::Neg)) }", "(l-r);(-u);(c-=c);false"),
                ("a stopping operator bound on the FIRST field, a parameter field after it", format!("{ex}#[derive_ex(Sub)] pub struct X<T, U> {{ #[derive_ex(Sub(bound()))] pub tag: Tag<T>, pub value: U }}"), "{ let mk = |s: &str| X::<String, Fm> { tag: Tag(::core::marker::PhantomData), value: Fm::new(s) }; let r = &mk(\"l\") - &mk(\"r\"); let q = mk(\"a\") - mk(\"b\"); format!(\"{};{};{}\", r.value.0, q.value.0, dxrt::impls!(X<String, String>: ::core::ops::Sub<X<String, String>>)) }", "(l-r);(a-b);false"),
            ];
            for (what, defs, run, expected) in progs {
                let code = format!("use derive_ex::{{derive_ex, Ex}};\nuse dxrt::Fm;\nuse dxrt::probe::Tag;\n{defs}\npub fn run() -> String {{ {run} }}\n");
                let mut atoms = BTreeSet::new();
                atoms.insert(format!("entry={entry}"));
                atoms.insert(format!("bounds={what}"));
                x.push(XCase { text: format!("{entry} {defs}"), code, expected: expected.to_string(), atoms, nontrivial: true, detail: json!({"kind": "explicit-bounds", "entry": entry, "what": what, "item": defs}), what: format!("derived operators via {entry}: {what}"), inner: 4, symptom: "operator-result-or-call-trace-differs".into(), must_compile: true });
            }
        }
    }
    run_and_compare(rep, "c08", &x);
}
