//! Evidence files, violations, replay artefacts and the known-findings file
//! (DESIGN.md 1.5 - 1.7).

use crate::explore::Stats;
use serde_json::{json, Map, Value};
use std::collections::{BTreeMap, BTreeSet};
use std::path::PathBuf;
use std::time::Instant;

pub fn root() -> PathBuf {
    PathBuf::from(std::env::var("DX_ROOT").unwrap_or_else(|_| "/verif".into()))
}
pub fn work() -> PathBuf {
    PathBuf::from(std::env::var("DX_WORK").unwrap_or_else(|_| "/verif/.work".into()))
}
pub fn repo() -> PathBuf {
    PathBuf::from(std::env::var("DX_REPO").unwrap_or_else(|_| "/repo".into()))
}

#[derive(Clone, Copy, PartialEq, Eq, Debug)]
pub enum Tier {
    Quick,
    Thorough,
}
impl Tier {
    pub fn name(self) -> &'static str {
        match self {
            Tier::Quick => "quick",
            Tier::Thorough => "thorough",
        }
    }
    pub fn is_thorough(self) -> bool {
        self == Tier::Thorough
    }
}

pub fn machinery(msg: &str) -> ! {
    println!("MACHINERY {msg}");
    std::process::exit(2);
}

#[derive(Clone, Debug)]
pub struct Violation {
    pub symptom: String,
    pub atoms: BTreeSet<String>,
    pub what: String,
    /// full description of the failing case: choice vector, program text, expected, observed
    pub detail: Value,
    /// stand-alone program reproducing it (optional)
    pub standalone: Option<String>,
}

#[derive(Clone, Debug)]
struct Known {
    status: String,
    property: String,
    symptom: String,
    atoms: Vec<String>,
    what: String,
    commit: Option<String>,
}

pub struct Report {
    pub id: String,
    pub tier: Tier,
    pub start: Instant,
    pub stats: Stats,
    pub evaluations: u64,
    pub inner_evaluations: u64,
    pub validated: u64,
    pub distinct: BTreeSet<u64>,
    pub nontrivial: u64,
    pub rule: String,
    pub exhaustive: bool,
    pub samples: Vec<Value>,
    pub extra: Map<String, Value>,
    pub outcomes: BTreeMap<String, u64>,
    pub assumptions: Vec<String>,
    violations: Vec<Violation>,
    known_hits: BTreeMap<usize, u64>,
    n_unlisted: u64,
    groups: BTreeMap<String, u64>,
    known: Vec<Known>,
    pub replay_mode: bool,
}

fn hash64(s: &str) -> u64 {
    use std::hash::{Hash, Hasher};
    let mut h = std::collections::hash_map::DefaultHasher::new();
    s.hash(&mut h);
    h.finish()
}

impl Report {
    pub fn new(id: &str, tier: Tier) -> Self {
        let mut known = Vec::new();
        let p = root().join("known_findings.json");
        if let Ok(txt) = std::fs::read_to_string(&p) {
            let v: Value = serde_json::from_str(&txt).unwrap_or_else(|e| machinery(&format!("known_findings.json does not parse: {e}")));
            for e in v["findings"].as_array().cloned().unwrap_or_default() {
                known.push(Known {
                    status: e["status"].as_str().unwrap_or("").into(),
                    property: e["property"].as_str().unwrap_or("").into(),
                    symptom: e["symptom"].as_str().unwrap_or("").into(),
                    atoms: e["atoms"].as_array().map(|a| a.iter().filter_map(|x| x.as_str().map(String::from)).collect()).unwrap_or_default(),
                    what: e["what"].as_str().unwrap_or("").into(),
                    commit: e["commit"].as_str().map(String::from),
                });
            }
        }
        Report {
            id: id.into(),
            tier,
            start: Instant::now(),
            stats: Stats::default(),
            evaluations: 0,
            inner_evaluations: 0,
            validated: 0,
            distinct: BTreeSet::new(),
            nontrivial: 0,
            rule: String::new(),
            exhaustive: true,
            samples: Vec::new(),
            extra: Map::new(),
            outcomes: BTreeMap::new(),
            assumptions: Vec::new(),
            violations: Vec::new(),
            known_hits: BTreeMap::new(),
            n_unlisted: 0,
            groups: BTreeMap::new(),
            known,
            replay_mode: false,
        }
    }

    /// Count one terminal state.  `text` is the canonical program text (for distinctness),
    /// `nontrivial` the per-property rule evaluated on this case.
    pub fn case(&mut self, text: &str, nontrivial: bool) {
        self.evaluations += 1;
        if self.distinct.insert(hash64(text)) && nontrivial {
            self.nontrivial += 1;
        }
    }
    pub fn outcome(&mut self, k: &str) {
        *self.outcomes.entry(k.to_string()).or_insert(0) += 1;
    }
    pub fn outcome_n(&mut self, k: &str, n: u64) {
        *self.outcomes.entry(k.to_string()).or_insert(0) += n;
    }
    pub fn sample(&mut self, v: Value) {
        if self.samples.len() < 6 {
            self.samples.push(v);
        }
    }
    pub fn set(&mut self, k: &str, v: Value) {
        self.extra.insert(k.into(), v);
    }
    pub fn add(&mut self, k: &str, n: u64) {
        let cur = self.extra.get(k).and_then(|v| v.as_u64()).unwrap_or(0);
        self.extra.insert(k.into(), json!(cur + n));
    }

    pub fn violation(&mut self, v: Violation) {
        // debugging aid: DX_FILTER=<substring> keeps only matching violations in the printed list
        let keep = std::env::var("DX_FILTER").map(|f| v.what.contains(&f)).unwrap_or(true);
        // is it a listed known finding?
        for (i, k) in self.known.iter().enumerate() {
            if k.status == "known" && k.property == self.id && (k.symptom == v.symptom || (k.symptom.ends_with('*') && v.symptom.starts_with(k.symptom.trim_end_matches('*')))) && k.atoms.iter().all(|a| v.atoms.contains(a)) {
                *self.known_hits.entry(i).or_insert(0) += 1;
                return;
            }
        }
        self.n_unlisted += 1;
        let gk = format!("{} {}", v.symptom, v.atoms.iter().filter(|a| a.starts_with("config=") || a.starts_with("trait=") || a.starts_with("derived=") || a.starts_with("group=")).cloned().collect::<Vec<_>>().join(" "));
        *self.groups.entry(gk).or_insert(0) += 1;
        if self.violations.len() < 12 && keep {
            self.violations.push(v);
        }
        // DX_FAIL_FAST is set by tools/selftest_par.sh only: a run against a seeded mutant needs the verdict, not
        // the full exploration, so the first unlisted violation ends it (never writes evidence: DX_NO_EVIDENCE is
        // set together with it)
        if std::env::var("DX_FAIL_FAST").is_ok() && std::env::var("DX_NO_EVIDENCE").is_ok() && !self.violations.is_empty() {
            self.exhaustive = false;
            let id = self.id.clone();
            let tier = self.tier;
            std::mem::replace(self, Report::new(&id, tier)).finish();
        }
    }
    pub fn n_violations(&self) -> u64 {
        self.n_unlisted
    }

    fn write_replays(&self) -> Vec<String> {
        let dir = root().join("replay").join(&self.id);
        let _ = std::fs::create_dir_all(&dir);
        let mut paths = Vec::new();
        for (n, v) in self.violations.iter().enumerate() {
            let p = dir.join(format!("{}.json", n));
            let mut d = json!({
                "property": self.id,
                "symptom": v.symptom,
                "atoms": v.atoms.iter().collect::<Vec<_>>(),
                "what": v.what,
                "case": v.detail,
            });
            if let Some(s) = &v.standalone {
                let sp = dir.join(format!("{}.rs", n));
                let _ = std::fs::write(&sp, s);
                d["standalone_program"] = json!(sp.to_string_lossy());
            }
            let _ = std::fs::write(&p, serde_json::to_string_pretty(&d).unwrap());
            paths.push(p.to_string_lossy().to_string());
        }
        paths
    }

    /// Write the evidence file, print verdict lines, and exit.
    pub fn finish(mut self) -> ! {
        let wall = self.start.elapsed().as_secs_f64();
        let mut cov = Map::new();
        cov.insert("states".into(), json!(self.stats.states.max(1)));
        cov.insert("transitions".into(), json!(self.stats.transitions.max(1)));
        cov.insert("terminal_states".into(), json!(self.stats.terminals));
        cov.insert("pruned_states".into(), json!(self.stats.pruned));
        cov.insert("traces_validated_against_impl".into(), json!(self.validated));
        cov.insert("evaluations".into(), json!(self.evaluations));
        cov.insert("inner_evaluations".into(), json!(self.inner_evaluations));
        cov.insert("distinct".into(), json!(self.distinct.len()));
        cov.insert("distinct_nontrivial".into(), json!(self.nontrivial));
        cov.insert("rule".into(), json!(self.rule));
        cov.insert("exhaustive".into(), json!(self.exhaustive));
        cov.insert("distinct_outcomes".into(), json!(self.outcomes));
        if self.samples.is_empty() {
            self.samples.push(json!("no case explored"));
        }
        cov.insert("samples".into(), json!(self.samples));
        for (k, v) in self.extra.iter() {
            cov.insert(k.clone(), v.clone());
        }
        let known_lines: Vec<String> = self
            .known
            .iter()
            .enumerate()
            .filter(|(_, k)| k.status == "known" && k.property == self.id)
            .map(|(i, k)| format!("KNOWN-FINDING: property={} {} [cases matching in this run: {}]", self.id, k.what, self.known_hits.get(&i).copied().unwrap_or(0)))
            .collect();
        cov.insert("known_finding_hits".into(), json!(self.known_hits.iter().map(|(i, n)| (self.known[*i].what.clone(), *n)).collect::<BTreeMap<_, _>>()));
        let fixed: Vec<String> = self.known.iter().filter(|k| k.status == "fixed" && k.property == self.id).map(|k| format!("fixed: property={} {} {}", k.property, k.commit.clone().unwrap_or_default(), k.what)).collect();
        cov.insert("fixed_findings".into(), json!(fixed));
        let ev = json!({
            "property_id": self.id,
            "tier": self.tier.name(),
            "seed": std::env::var("VERIF_SEED").ok().and_then(|s| s.parse::<i64>().ok()).unwrap_or(0),
            "level": "model_checking",
            "coverage": Value::Object(cov),
            "assumptions": self.assumptions,
            "wall_s": wall,
            "violations": self.n_unlisted,
        });
        // DX_NO_EVIDENCE is set by tools/run_mutant.sh so that runs against a seeded mutant never
        // overwrite the evidence of the unchanged tree
        if !self.replay_mode && std::env::var("DX_NO_EVIDENCE").is_err() {
            let dir = root().join("evidence");
            let _ = std::fs::create_dir_all(&dir);
            let p = dir.join(format!("{}.json", self.id));
            if let Err(e) = std::fs::write(&p, serde_json::to_string_pretty(&ev).unwrap()) {
                machinery(&format!("cannot write evidence file: {e}"));
            }
        }
        for l in &known_lines {
            println!("{l}");
        }
        println!(
            "{} tier={} states={} transitions={} evaluations={} inner={} distinct_nontrivial={} validated={} violations={} wall={:.1}s",
            self.id, self.tier.name(), self.stats.states, self.stats.transitions, self.evaluations, self.inner_evaluations, self.nontrivial, self.validated, self.n_unlisted, wall
        );
        if self.n_unlisted > 0 {
            // clear stale replays of this property first
            let dir = root().join("replay").join(&self.id);
            let _ = std::fs::remove_dir_all(&dir);
            let paths = self.write_replays();
            for (v, p) in self.violations.iter().zip(paths.iter()) {
                println!("  {} :: {}", v.symptom, v.what);
                println!("VIOLATION property={} replay={}", self.id, p);
            }
            println!("violation groups (symptom + config/trait atoms): ");
            for (g, n) in self.groups.iter() {
                println!("  {n:>7}  {g}");
            }
            if self.n_unlisted as usize > self.violations.len() {
                println!("  ({} further violating cases not written out)", self.n_unlisted as usize - self.violations.len());
            }
            std::process::exit(1);
        }
        std::process::exit(0);
    }
}

pub fn atoms(xs: &[&str]) -> BTreeSet<String> {
    xs.iter().map(|s| s.to_string()).collect()
}
