//! C01 — derived ==, partial_cmp, cmp follow the documented lexicographic rule.
//! Channel X (E as filter) against the reference interpreter of cmpx.rs.

use crate::cmpx::*;
use crate::expand::Entry;
use crate::explore::{explore, par_map, replay, threads, Ch};
use crate::gen::{Container, KeyForm, KeyStyle};
use crate::refmodel::*;
use crate::report::{Report, Violation};
use crate::runner;
use crate::Ctx;
use serde_json::json;
use std::collections::BTreeSet;

#[derive(Clone, Debug)]
pub struct Case {
    pub gen: &'static str,
    pub vector: Vec<usize>,
    pub ts: TypeSpec,
    pub derived: Vec<Tr>,
    pub entry: Entry,
}

pub fn container_spec(container: Container, ctx: crate::gen::Ctx, cfg: FieldSpec, style: KeyStyle) -> TypeSpec {
    let (n, at) = ctx.layout();
    let mut fs = Vec::new();
    for i in 0..n {
        if i == at {
            fs.push(cfg.clone());
        } else {
            fs.push(FieldSpec::plain(FTy::U8, 2));
        }
    }
    match container {
        Container::TupleStruct => TypeSpec { is_enum: false, variants: vec![VariantSpec { kind: VKind::Tuple, fields: fs }], style, shared_arg: None, discr: 0 },
        Container::NamedStruct => TypeSpec { is_enum: false, variants: vec![VariantSpec { kind: VKind::Named, fields: fs }], style, shared_arg: None, discr: 0 },
        Container::EnumTupleVariant => TypeSpec { is_enum: true, variants: vec![VariantSpec { kind: VKind::Unit, fields: vec![] }, VariantSpec { kind: VKind::Tuple, fields: fs }, VariantSpec { kind: VKind::Named, fields: vec![FieldSpec::plain(FTy::U8, 2)] }], style, shared_arg: None, discr: 0 },
        Container::EnumNamedVariant => TypeSpec { is_enum: true, variants: vec![VariantSpec { kind: VKind::Unit, fields: vec![] }, VariantSpec { kind: VKind::Named, fields: fs }, VariantSpec { kind: VKind::Tuple, fields: vec![FieldSpec::plain(FTy::U8, 2)] }], style, shared_arg: None, discr: 0 },
    }
}

fn form_for(ctx: crate::gen::Ctx) -> KeyForm {
    match ctx {
        crate::gen::Ctx::Alone => KeyForm::Inherent,
        crate::gen::Ctx::FirstOf2 => KeyForm::Method,
        crate::gen::Ctx::LastOf2 => KeyForm::Twice,
        crate::gen::Ctx::MiddleOf3 => KeyForm::Nested,
    }
}

const FOUR: [Tr; 4] = [Ord, PartialOrd, Eq, PartialEq];

fn pick_combo4(ch: &mut Ch, derived: &[Tr], reduced: bool) -> Option<Combo> {
    let mut combo = Combo::PLAIN;
    for t in FOUR {
        let full: &[Arg] = if matches!(t, Ord | PartialOrd) { &Arg::ORD7 } else { &Arg::EQ4 };
        let red: &[Arg] = if matches!(t, Ord | PartialOrd) { &[Arg::None, Arg::Key, Arg::Reverse] } else { &[Arg::None, Arg::Key] };
        let a = *ch.of(if reduced { red } else { full });
        if a != Arg::None && !recognised(t, derived) {
            return None;
        }
        combo = combo.with(t, a);
    }
    // accepted by the reference for every derived trait?  (the rest is C05's business)
    if !derived.iter().all(|&t| ref_accept(&combo, t)) {
        return None;
    }
    Some(combo)
}

/// M1: single configured field, all four traits derived.
fn gen_m1(ch: &mut Ch, thorough: bool) -> Option<Case> {
    use crate::gen::Ctx as C;
    let places: Vec<(Container, C)> = if thorough {
        let mut v = Vec::new();
        for c in [Container::TupleStruct, Container::NamedStruct, Container::EnumTupleVariant, Container::EnumNamedVariant] {
            for x in [C::Alone, C::FirstOf2, C::LastOf2, C::MiddleOf3] {
                v.push((c, x));
            }
        }
        v
    } else {
        vec![(Container::TupleStruct, C::FirstOf2), (Container::EnumTupleVariant, C::LastOf2), (Container::NamedStruct, C::MiddleOf3)]
    };
    let (container, ctx) = *ch.of(&places);
    let entries: &[Entry] = if thorough { &Entry::BOTH } else { &[Entry::Attr] };
    let entry = *ch.of(entries);
    let derived = FOUR.to_vec();
    let combo = pick_combo4(ch, &derived, false)?;
    let mut cfgf = FieldSpec::cfg(combo, form_for(ctx));
    // identity key `$` on one of the attributes carrying a key (none = slot default)
    let keyed: Vec<Tr> = Tr::ALL.iter().copied().filter(|t| combo.get(*t).key()).collect();
    if keyed.len() >= 2 {
        let k = ch.pick(keyed.len() + 1);
        if k > 0 {
            cfgf.identity = Some(keyed[k - 1]);
        }
    }
    let ts = container_spec(container, ctx, cfgf, KeyStyle::Distinct);
    Some(Case { gen: "m1", vector: ch.vector(), ts, derived, entry })
}

/// all 15 non-empty subsets of the four traits
pub fn subsets4() -> Vec<Vec<Tr>> {
    let mut v = Vec::new();
    for m in 1..16u32 {
        let s: Vec<Tr> = FOUR.iter().enumerate().filter(|(i, _)| m & (1 << i) != 0).map(|(_, t)| *t).collect();
        v.push(s);
    }
    v.sort_by_key(|s| s.len());
    v
}

/// M2: trait subsets x entry points.
fn gen_m2(ch: &mut Ch, thorough: bool) -> Option<Case> {
    use crate::gen::Ctx as C;
    let subs = subsets4();
    let derived = ch.of(&subs).clone();
    let entry = *ch.of(&Entry::BOTH);
    let places: &[(Container, C)] = if thorough { &[(Container::TupleStruct, C::FirstOf2), (Container::EnumNamedVariant, C::LastOf2)] } else { &[(Container::EnumTupleVariant, C::FirstOf2)] };
    let (container, ctx) = *ch.of(places);
    let combo = pick_combo4(ch, &derived, !thorough)?;
    if derived.len() == 4 && combo.is_plain() {
        return None;
    }
    // attribute entry also with every trait in its own stacked `#[derive_ex(..)]` attribute
    // .. or generated by a macro_rules! macro with the helper attributes passed in as meta fragments
    // .. or stacked with the later lists written with the crate-qualified attribute path (separate invocations for rustc)
    let how = ch.pick(4);
    if (how == 1 || how == 3) && !(derived.len() >= 2 && entry == Entry::Attr) || how == 2 && combo.is_plain() || how == 3 && combo.is_plain() {
        return None;
    }
    let mut ts = container_spec(container, ctx, FieldSpec::cfg(combo, form_for(ctx)), KeyStyle::Distinct);
    if how == 1 {
        ts.shared_arg = Some(STACKED);
    } else if how == 2 {
        ts.shared_arg = Some(VIA_MACRO);
    } else if how == 3 {
        ts.shared_arg = Some(STACKED_QUALIFIED);
    }
    Some(Case { gen: "m2", vector: ch.vector(), ts, derived, entry })
}

/// per-field configurations valid for all four traits
fn m3_alphabet(thorough: bool) -> Vec<Combo> {
    let p = Combo::PLAIN;
    let mut v = vec![p, p.with(Ord, Arg::Ignore), p.with(Ord, Arg::Reverse), p.with(Ord, Arg::Key), p.with(Ord, Arg::By), p.with(Ord, Arg::ReverseKey)];
    if thorough {
        v.push(p.with(Ord, Arg::ReverseBy));
        v.push(p.with(Ord, Arg::ReverseKey).with(PartialOrd, Arg::Key).with(Eq, Arg::Key).with(PartialEq, Arg::By));
    }
    v
}

/// M3: multi-field / multi-variant shapes, generic and partially ordered fields.
fn gen_m3(ch: &mut Ch, thorough: bool) -> Option<Case> {
    let alpha = m3_alphabet(thorough);
    let max_fields = if thorough { 4 } else { 3 };
    // shape: 0 = struct tuple, 1 = struct named, 2 = enum {A(..cfg..), B, C{..cfg..}}, 3 = enum with 4 variants
    let shape = ch.pick(4);
    let derived: Vec<Tr>;
    // field-type flavour: 0 all V; 1 generic mix (T, Option<T>, W<T> plain fields); 2 partial (Pv, only PartialEq+PartialOrd)
    let flavour = ch.pick(3);
    derived = if flavour == 2 { vec![PartialOrd, PartialEq] } else { FOUR.to_vec() };
    let entry = *ch.of(&Entry::BOTH);
    let n = ch.pick(max_fields + 1);
    let mut fields = Vec::new();
    for i in 0..n {
        let c = *ch.of(&alpha);
        let c = if flavour == 2 { c } else { c };
        let mut f = FieldSpec { ty: FTy::V, dom: 3, combo: c, form: if n == 2 { [KeyForm::Fragment, KeyForm::FragmentNested][i] } else { [KeyForm::Inherent, KeyForm::Twice, KeyForm::Nested, KeyForm::Method][i % 4] }, identity: None };
        if c.is_plain() || (!c.get(Ord).custom()) {
            // fields without key/by may have any type of the pool
            match flavour {
                1 => f.ty = [FTy::T, FTy::OptT, FTy::WT, FTy::U8][i % 4],
                2 => {
                    f.ty = FTy::Pv;
                    f.dom = 4;
                }
                _ => {}
            }
        } else if flavour == 1 {
            // key / by on a field whose type is a parameter of the item (declared `T: dxrt::Kt`)
            f.ty = FTy::Tk;
        }
        fields.push(f);
    }
    if n == 0 && flavour != 0 {
        return None;
    }
    if entry == Entry::Derive && !thorough && n > 2 {
        return None;
    }
    let ts = match shape {
        0 => TypeSpec { is_enum: false, variants: vec![VariantSpec { kind: if n == 0 { VKind::Unit } else { VKind::Tuple }, fields }], style: KeyStyle::Distinct, shared_arg: None, discr: 0 },
        1 => TypeSpec { is_enum: false, variants: vec![VariantSpec { kind: VKind::Named, fields }], style: KeyStyle::Distinct, shared_arg: None, discr: 0 },
        2 => TypeSpec { is_enum: true, variants: vec![VariantSpec { kind: VKind::Tuple, fields: fields.clone() }, VariantSpec { kind: VKind::Unit, fields: vec![] }, VariantSpec { kind: VKind::Named, fields }], style: KeyStyle::Distinct, shared_arg: None, discr: 0 },
        _ => {
            let rev: Vec<FieldSpec> = fields.iter().rev().cloned().collect();
            TypeSpec { is_enum: true, variants: vec![VariantSpec { kind: VKind::Unit, fields: vec![] }, VariantSpec { kind: VKind::Named, fields }, VariantSpec { kind: VKind::Tuple, fields: rev }, VariantSpec { kind: VKind::Tuple, fields: vec![] }], style: KeyStyle::Distinct, shared_arg: None, discr: 0 }
        }
    };
    // generic types additionally with an explicit shared bound that stops the default bounds
    let mut ts = ts;
    // enums also with explicit discriminants in decreasing order
    if ts.is_enum {
        ts.discr = ch.pick(3) as u8;
    }
    if ts.generic() && ch.flag() {
        ts.shared_arg = Some("bound(T: ::core::cmp::Ord + ::core::cmp::PartialEq + ::core::cmp::Eq + ::core::cmp::PartialOrd)");
    }
    Some(Case { gen: "m3", vector: ch.vector(), ts, derived, entry })
}

/// every case of the three generators (used by C20 as well)
pub fn all_cases(thorough: bool) -> (Vec<Case>, crate::explore::Stats) {
    let mut cases = Vec::new();
    let mut stats = crate::explore::Stats::default();
    for g in [gen_m1 as fn(&mut Ch, bool) -> Option<Case>, gen_m2, gen_m3] {
        let st = explore(|ch| g(ch, thorough), |_, c| cases.push(c));
        stats.add(&st);
    }
    (cases, stats)
}

fn atoms_of(c: &Case) -> BTreeSet<String> {
    let mut a = BTreeSet::new();
    a.insert(format!("gen={}", c.gen));
    a.insert(format!("entry={}", c.entry.name()));
    a.insert(format!("derived={}", names(&c.derived).join("+")));
    a.insert(format!("container={}", if c.ts.is_enum { "enum" } else { "struct" }));
    for v in &c.ts.variants {
        for (i, f) in v.fields.iter().enumerate() {
            if !f.combo.is_plain() {
                for t in Tr::ALL {
                    if f.combo.get(t) != Arg::None {
                        a.insert(format!("{}={}", t.attr(), f.combo.get(t).short()));
                        a.insert(format!("field{}.{}={}", i, t.attr(), f.combo.get(t).short()));
                    }
                }
            }
            a.insert(format!("fieldty={}", f.ty.text()));
        }
    }
    a
}

pub fn standalone(code: &str, expected: &str) -> String {
    format!("// stand-alone replay: build with derive-ex and /verif/engine/dxrt on the extern path\nmod case {{\n{code}\n}}\nfn main() {{\n    let got = case::run();\n    let want = {expected:?};\n    assert_eq!(got, want, \"derived comparison disagrees with the documented rule\");\n}}\n")
}

pub fn run(ctx: &Ctx, rep: &mut Report) {
    let thorough = ctx.tier.is_thorough();
    rep.rule = "terminal state = (generator M1 single configured field x container x context | M2 trait subset x entry point | M3 multi-field/multi-variant shapes incl. generic and partially ordered fields, helper-attribute combination(s) accepted by the reference); inner enumeration = all ordered pairs of the full product of the per-field value domains; distinct by program text; non-trivial = accepted, at least one helper attribute, at least 2 distinct outcomes among the pairs".into();
    rep.assumptions = vec![
        "reference interpreter ref_eq / ref_partial_cmp / ref_cmp of engine/dxmc/src/cmpx.rs (documented precedence, I2 reverse = OR)".into(),
        "cases the reference and the expander disagree on accepting are C05's business; accepted cases rustc refuses are C20's (counted as unobservable)".into(),
        "value domains: 6 values for a configured field, 2-4 for neighbours; the generated code is parametric in field values".into(),
    ];
    let mut cases: Vec<Case> = Vec::new();
    if let Some(p) = &ctx.replay {
        let v: serde_json::Value = serde_json::from_str(&std::fs::read_to_string(p).expect("replay file")).expect("replay json");
        let vec: Vec<usize> = v["case"]["vector"].as_array().unwrap().iter().map(|x| x.as_u64().unwrap() as usize).collect();
        let th = v["case"]["tier"] == "thorough";
        let c = match v["case"]["gen"].as_str().unwrap_or("") {
            "m1" => replay(|ch| gen_m1(ch, th), &vec),
            "m2" => replay(|ch| gen_m2(ch, th), &vec),
            _ => replay(|ch| gen_m3(ch, th), &vec),
        };
        cases.push(c.unwrap_or_else(|| crate::report::machinery("replayed vector is pruned")));
    } else {
        for g in [gen_m1 as fn(&mut Ch, bool) -> Option<Case>, gen_m2, gen_m3] {
            let st = explore(|ch| g(ch, thorough), |_, c| cases.push(c));
            rep.stats.add(&st);
        }
    }
    evaluate_cases(ctx, rep, &cases, false);
}

/// Shared by C01 (comparisons) and C06 (hash feeds): filter through channel E, compile and
/// run, compare with the reference.
pub fn evaluate_cases(ctx: &Ctx, rep: &mut Report, cases: &[Case], hash_only: bool) {
    // E filter
    let items: Vec<String> = cases.iter().map(|c| c.ts.item().print()).collect();
    let acc = par_map(&items.iter().zip(cases.iter()).collect::<Vec<_>>(), threads(), |_, (item, c)| expander_accepts(c.entry, &c.derived, item));
    let mut run_idx: Vec<usize> = Vec::new();
    for (i, a) in acc.iter().enumerate() {
        match a {
            Ok(()) => run_idx.push(i),
            Err(e) => {
                // the generators only emit placements the documentation allows: a refusal means the documented
                // comparator / hash input of this field can not be had at all (acceptance as such is C05's subject)
                let c = &cases[i];
                // (only where the reference acceptance rule itself allows every field's combination)
                let documented = c.ts.variants.iter().all(|v| v.fields.iter().all(|f| c.derived.iter().all(|&t| ref_accept(&f.combo, t))));
                if !documented {
                    rep.add("generator_placement_not_allowed_by_the_reference(skipped)", 1);
                    continue;
                }
                rep.outcome("expander-rejected");
                rep.case(&format!("{} {} {}", c.entry.name(), names(&c.derived).join(","), items[i]), true);
                rep.violation(Violation { symptom: "documented-placement-refused".into(), atoms: atoms_of(c), what: format!("{} derive_ex({}) via {}: the documentation allows this placement, the expander refuses it: {}", c.ts.describe(), names(&c.derived).join(", "), c.entry.name(), runner::first_line(e)), detail: json!({"gen": c.gen, "tier": ctx.tier.name(), "vector": c.vector, "entry": c.entry.name(), "derived": names(&c.derived), "item": items[i], "observation": e}), standalone: None });
            }
        }
    }
    // compiled and evaluated in chunks so that the observation strings of a thorough run
    // (several GB) are never held in memory at once
    let all_idx = run_idx;
    for run_idx in all_idx.chunks(4000) {
    let rcases: Vec<runner::Case> = run_idx.iter().map(|&i| runner::Case { code: program(&cases[i].ts, &cases[i].derived, cases[i].entry) }).collect();
    let res = runner::run_cases(&rcases, &runner::Opts::run(&rep.id.to_lowercase()));
    for (k, &i) in run_idx.iter().enumerate() {
        let c = &cases[i];
        let r = &res[k];
        let text = format!("{} {}{} {}", c.entry.name(), names(&c.derived).join(","), c.ts.shared_arg.map(|a| format!(", {a}")).unwrap_or_default(), items[i]);
        let has_attr = c.ts.variants.iter().any(|v| v.fields.iter().any(|f| !f.combo.is_plain()));
        let detail = |extra: serde_json::Value| json!({"gen": c.gen, "tier": ctx.tier.name(), "vector": c.vector, "entry": c.entry.name(), "derived": names(&c.derived), "item": items[i], "observation": extra});
        if !r.compiled() && refused_by_eq_assertion(&c.ts, &c.derived) {
            rep.case(&text, false);
            rep.add("refused_by_the_Eq_assertion_as_C17_demands(NaN-like partial_ord key under ==)", 1);
            rep.outcome("refused-by-design:C17");
            continue;
        }
        if !r.compiled() {
            // the expander accepted the placement without an error of its own, so the documented behaviour must be
            // observable: a program rustc rejects is a violation here as in the other behavioural checks
            rep.case(&text, false);
            rep.outcome(&format!("does-not-compile:{}", r.codes()));
            let mut atoms = atoms_of(c);
            atoms.insert(format!("group={}", r.codes()));
            rep.violation(Violation { symptom: format!("does-not-compile:{}", r.codes()), atoms, what: format!("{} derive_ex({}) via {}: rustc rejects the program: {}", c.ts.describe(), names(&c.derived).join(", "), c.entry.name(), r.errors().iter().map(|e| format!("{} {}", e.code, runner::first_line(&e.message))).collect::<Vec<_>>().join(" | ")), detail: detail(json!(r.codes())), standalone: Some(standalone(&rcases[k].code, "")) });
            continue;
        }
        rep.validated += 1;
        if let Some(p) = &r.panicked {
            rep.case(&text, false);
            rep.violation(Violation { symptom: "panic-in-derived-impl".into(), atoms: atoms_of(c), what: format!("{} derive_ex({}) via {}: {}", c.ts.describe(), names(&c.derived).join(", "), c.entry.name(), p), detail: detail(json!(p)), standalone: Some(standalone(&rcases[k].code, "")) });
            continue;
        }
        let out = r.output.clone().unwrap_or_default();
        let obs = parse_obs(&out);
        let exp = expected(&c.ts, &c.derived);
        let vals = c.ts.values();
        let n = vals.len();
        let mut distinct_out = BTreeSet::new();
        let mut bad: Option<(String, String)> = None;
        if !hash_only {
            let secs: [(&str, &Option<String>, &Option<String>, usize); 3] = [("==", &obs.eq, &exp.eq, 2), ("partial_cmp", &obs.pc, &exp.pc, 1), ("cmp", &obs.cmp, &exp.cmp, 1)];
            for (name, got, want, width) in secs {
                if let Some(want) = want {
                    let got = got.clone().unwrap_or_default();
                    rep.inner_evaluations += (n * n) as u64;
                    let mut cnt = std::collections::BTreeMap::new();
                    for ch in got.chars() {
                        *cnt.entry(ch).or_insert(0u64) += 1;
                    }
                    for (ch, k) in cnt {
                        distinct_out.insert(ch);
                        rep.outcome_n(&format!("{name}:{ch}"), k / width as u64);
                    }
                    if let Some(d) = first_diff(&got, want) {
                        let pair = d / width;
                        let (ai, bi) = (pair / n, pair % n);
                        if bad.is_none() && ai < n {
                            bad = Some((format!("{}-differs", name), format!("{name}({}, {}) returned {:?}, documented rule gives {:?}", show_val(&c.ts, &vals[ai]), show_val(&c.ts, &vals[bi]), got.get(d..d + 1).unwrap_or("?"), want.get(d..d + 1).unwrap_or("?"))));
                        } else if bad.is_none() {
                            bad = Some((format!("{}-differs", name), format!("{name}: observation has {} entries, expected {}", got.len(), want.len())));
                        }
                    }
                }
            }
        }
        if c.derived.contains(&Hash) {
            let feeds = obs.hash.clone().unwrap_or_default();
            rep.inner_evaluations += n as u64;
            if feeds.len() != n && bad.is_none() {
                bad = Some(("hash-feed-missing".into(), format!("{} feeds observed for {} values", feeds.len(), n)));
            }
            let mut dfeeds = BTreeSet::new();
            for (vi, (got, want)) in feeds.iter().enumerate() {
                dfeeds.insert(got.clone());
                if got != want && bad.is_none() {
                    bad = Some(("hash-feed-differs".into(), format!("hash({}) fed [{}], effective inputs per documentation feed [{}]", show_val(&c.ts, &vals[vi.min(n - 1)]), got, want)));
                }
            }
            // independently of the in-program reference: for all same-variant pairs the feeds
            // are equal iff the effective-input vectors (computed here from the spec) are equal
            if feeds.len() == n {
                let eff: Vec<Vec<(u8, u8)>> = vals.iter().map(|v| c.ts.variants[v.0].fields.iter().enumerate().filter_map(|(fi, f)| match select(&f.combo, Hash) {
                    Sel::Ignored => None,
                    Sel::Default => Some((0u8, v.1[fi])),
                    Sel::Key(at) if f.identity == Some(at) => Some((3, v.1[fi])),
                    Sel::Key(at) => Some((1, proj(at, c.ts.style, v.1[fi]))),
                    Sel::By(at) => Some((2, proj(at, c.ts.style, v.1[fi]))),
                }).collect()).collect();
                for ai in 0..n {
                    for bi in 0..n {
                        if vals[ai].0 == vals[bi].0 {
                            rep.inner_evaluations += 1;
                            if (feeds[ai].0 == feeds[bi].0) != (eff[ai] == eff[bi]) && bad.is_none() {
                                bad = Some(("hash-feed-equality-differs-from-effective-inputs".into(), format!("hash({}) fed [{}], hash({}) fed [{}], but effective inputs are {}", show_val(&c.ts, &vals[ai]), feeds[ai].0, show_val(&c.ts, &vals[bi]), feeds[bi].0, if eff[ai] == eff[bi] { "equal" } else { "different" })));
                            }
                        }
                    }
                }
            }
            rep.add("distinct_hash_feeds", dfeeds.len() as u64);
            for d in dfeeds.iter().take(2) {
                distinct_out.insert(d.chars().next().unwrap_or('-'));
            }
            if dfeeds.len() >= 2 {
                distinct_out.insert('h');
                distinct_out.insert('H');
            }
        }
        rep.case(&text, has_attr && distinct_out.len() >= 2);
        if let Some((symptom, what)) = bad {
            let mut obsj = json!({"observed": out});
            obsj["expected_eq"] = json!(exp.eq);
            obsj["expected_partial_cmp"] = json!(exp.pc);
            obsj["expected_cmp"] = json!(exp.cmp);
            rep.violation(Violation { symptom, atoms: atoms_of(c), what: format!("{} derive_ex({}) via {}: {}", c.ts.describe(), names(&c.derived).join(", "), c.entry.name(), what), detail: detail(obsj), standalone: Some(format!("// program of the failing case (module body)\n{}", rcases[k].code)) });
        } else if rep.samples.len() < 4 && has_attr && c.ts.variants.iter().map(|v| v.fields.len()).sum::<usize>() >= 2 {
            rep.sample(json!({"entry": c.entry.name(), "derive_ex": names(&c.derived), "item": items[i], "values": n, "pairs": n * n, "observed_prefix": out.chars().take(120).collect::<String>()}));
        }
    }
    }
    if ctx.replay.is_none() {
        // `by = ..` functions built around a macro_rules! expr fragment: the comparison the user wrote decides, not a
        // re-grouped one (`(a * $e)` with `$e = 0 + 1` is `a * (0 + 1)`); Hash likewise
        let mut x: Vec<crate::xrun::XCase> = Vec::new();
        for (entry, ex) in [("attr", ""), ("derive", "#[derive(Ex)] ")] {
            let code = format!("use derive_ex::{{derive_ex, Ex}};\nmacro_rules! mk {{ ($e:expr) => {{ {ex}#[derive_ex(Ord, PartialOrd, Eq, PartialEq, Hash)] pub struct X {{ #[ord(by = |a: &u32, b: &u32| ::core::cmp::Ord::cmp(&(a * $e), &(b * $e)))] #[hash(by = |a: &u32, s| ::core::hash::Hash::hash(&(a * $e), s))] pub a: u32, pub b: u8 }} }} }}\nmk!(0 + 1);\npub fn run() -> String {{ let v = [X {{ a: 1, b: 0 }}, X {{ a: 2, b: 0 }}, X {{ a: 2, b: 1 }}]; let mut out = String::new(); for p in &v {{ for q in &v {{ out.push_str(&format!(\"{{}}{{:?}}{{:?}};\", p == q, ::core::cmp::PartialOrd::partial_cmp(p, q), ::core::cmp::Ord::cmp(p, q))); }} }} out.push_str(&format!(\"h{{}}\", dxrt::RecHasher::of(&v[0]) != dxrt::RecHasher::of(&v[1]))); out }}\n");
            let expected = {
                let v = [(1u32, 0u8), (2, 0), (2, 1)];
                let mut o = String::new();
                for p in &v {
                    for q in &v {
                        let c = p.cmp(q);
                        o.push_str(&format!("{}{:?}{:?};", c == std::cmp::Ordering::Equal, Some(c), c));
                    }
                }
                o.push_str("htrue");
                o
            };
            let mut atoms = BTreeSet::new();
            atoms.insert(format!("entry={entry}"));
            atoms.insert("by=around-an-expr-fragment".to_string());
            x.push(crate::xrun::XCase { text: format!("{entry} by = |a, b| cmp(&(a * $e), &(b * $e)) [$e = 0 + 1]"), code, expected, atoms, nontrivial: true, detail: json!({"gen": "by-fragment", "entry": entry}), what: format!("derive_ex(Ord, PartialOrd, Eq, PartialEq, Hash) via {entry} with `by` functions built around an expr fragment"), inner: 9, symptom: "cmp-differs".into(), must_compile: true });
        }
        crate::xrun::run_and_compare(rep, "c01b", &x);
    }
    rep.set("compiled_and_executed", json!(rep.validated));
    rep.set("rustc_invocations", json!(runner::STATS.rustc_invocations.load(std::sync::atomic::Ordering::Relaxed)));
    rep.set("rustc_rounds_max", json!(runner::STATS.rounds_max.load(std::sync::atomic::Ordering::Relaxed)));
}
