//! Channels R and X: generated crates compiled by direct, parallel rustc invocations
//! against the REAL proc-macro dylib built from the repository (DESIGN.md 1.3).

use crate::explore::{par_map, threads};
use crate::report::{machinery, work};
use serde_json::Value;
use std::path::PathBuf;
use std::process::Command;
use std::sync::atomic::{AtomicU64, Ordering};

#[derive(Clone, Debug)]
pub struct Case {
    /// body of `mod c<i> { .. }`; for Mode::Run it must define `pub fn run() -> String`
    pub code: String,
}

#[derive(Clone, Debug, Default)]
pub struct Diag {
    pub level: String,
    pub code: String,
    pub message: String,
    /// some primary span lies inside the output of derive_ex / derive(Ex)
    pub in_macro: bool,
}

#[derive(Clone, Debug, Default)]
pub struct CaseResult {
    pub diags: Vec<Diag>,
    /// `Some(observation)` when the case compiled and ran (Mode::Run)
    pub output: Option<String>,
    pub panicked: Option<String>,
}
impl CaseResult {
    pub fn errors(&self) -> Vec<&Diag> {
        self.diags.iter().filter(|d| d.level == "error").collect()
    }
    pub fn compiled(&self) -> bool {
        self.errors().is_empty()
    }
    pub fn codes(&self) -> String {
        let mut v: Vec<String> = self.diags.iter().map(|d| if d.code.is_empty() { format!("{}:{}", d.level, first_line(&d.message)) } else { d.code.clone() }).collect();
        v.sort();
        v.dedup();
        v.join(",")
    }
}
pub fn first_line(s: &str) -> String {
    s.lines().next().unwrap_or("").chars().take(160).collect()
}

#[derive(Clone, Copy, PartialEq, Eq, Debug)]
pub enum Mode {
    /// metadata only (channel R)
    Check,
    /// link and execute (channel X)
    Run,
}

#[derive(Clone, Debug)]
pub struct Opts {
    pub mode: Mode,
    /// crate-level inner attributes, e.g. "#![allow(warnings)]"
    pub crate_attrs: String,
    pub per_file: usize,
    pub label: String,
    pub no_std: bool,
}
impl Opts {
    pub fn run(label: &str) -> Opts {
        Opts { mode: Mode::Run, crate_attrs: "#![allow(warnings)]".into(), per_file: 120, label: label.into(), no_std: false }
    }
    pub fn check(label: &str) -> Opts {
        Opts { mode: Mode::Check, crate_attrs: "#![allow(warnings)]".into(), per_file: 150, label: label.into(), no_std: false }
    }
}

#[derive(Default, Debug)]
pub struct RunStats {
    pub rustc_invocations: AtomicU64,
    pub rounds_max: AtomicU64,
}
pub static STATS: RunStats = RunStats { rustc_invocations: AtomicU64::new(0), rounds_max: AtomicU64::new(0) };

fn env(k: &str) -> String {
    std::env::var(k).unwrap_or_else(|_| machinery(&format!("environment variable {k} not set (run through ./check)")))
}

struct Batch {
    idxs: Vec<usize>,
}

struct FileOut {
    /// per local position: diags
    diags: Vec<Vec<Diag>>,
    unattributed: Vec<Diag>,
    outputs: Vec<(Option<String>, Option<String>)>,
    ran: bool,
    run_failure: Option<String>,
}

fn compile_file(dir: &PathBuf, name: &str, cases: &[Case], idxs: &[usize], opts: &Opts) -> FileOut {
    let mut src = String::new();
    src.push_str(&opts.crate_attrs);
    src.push('\n');
    if opts.no_std {
        src.push_str("#![no_std]\n");
    }
    let mut ranges: Vec<(usize, usize)> = Vec::new(); // 1-based inclusive line range per case
    let mut line = src.matches('\n').count() + 1;
    for (k, &i) in idxs.iter().enumerate() {
        // every case lives next to user modules named like the std crates: generated code that names `core`, `std`
        // or `alloc` without a leading `::` resolves to these empty modules and stops compiling (hygiene, C13)
        let text = format!("pub mod c{} {{ #[allow(unused)] mod core {{}} #[allow(unused)] mod std {{}} #[allow(unused)] mod alloc {{}}\n{}\n}}\n", k, cases[i].code);
        let n = text.matches('\n').count();
        ranges.push((line, line + n - 1));
        line += n;
        src.push_str(&text);
    }
    if opts.mode == Mode::Run {
        src.push_str("fn main() {\n");
        for (k, &i) in idxs.iter().enumerate() {
            src.push_str(&format!("    dxrt::run_case({}, c{}::run);\n", i, k));
        }
        src.push_str("}\n");
    } else if !opts.no_std {
        src.push_str("fn main() {}\n");
    }
    let file = dir.join(format!("{name}.rs"));
    std::fs::write(&file, &src).unwrap_or_else(|e| machinery(&format!("cannot write {file:?}: {e}")));
    let exe = dir.join(format!("{name}.bin"));
    let mut cmd = Command::new("rustc");
    cmd.arg("--edition=2021").arg("--error-format=json").arg("--json=diagnostic-short").arg("-Cdebuginfo=0").arg("-Copt-level=0").arg("-Ccodegen-units=4");
    cmd.arg("--crate-name").arg(name);
    cmd.arg("--extern").arg(format!("derive_ex={}", env("DX_PROC_MACRO")));
    cmd.arg("--extern").arg(format!("dxrt={}", env("DX_RT_RLIB")));
    cmd.arg("-L").arg(format!("dependency={}", env("DX_DEPS_DIR")));
    match opts.mode {
        Mode::Check => {
            cmd.arg("--emit=metadata").arg("--crate-type").arg(if opts.no_std { "lib" } else { "bin" });
            cmd.arg("-o").arg(dir.join(format!("{name}.rmeta")));
        }
        Mode::Run => {
            cmd.arg("--crate-type").arg("bin").arg("-o").arg(&exe);
        }
    }
    cmd.arg(&file);
    STATS.rustc_invocations.fetch_add(1, Ordering::Relaxed);
    let out = cmd.output().unwrap_or_else(|e| machinery(&format!("cannot run rustc: {e}")));
    let mut fo = FileOut { diags: vec![Vec::new(); idxs.len()], unattributed: Vec::new(), outputs: vec![(None, None); idxs.len()], ran: false, run_failure: None };
    let file_s = file.to_string_lossy().to_string();
    for l in String::from_utf8_lossy(&out.stderr).lines() {
        if !l.starts_with('{') {
            continue;
        }
        let v: Value = match serde_json::from_str(l) {
            Ok(v) => v,
            Err(_) => continue,
        };
        let level = v["level"].as_str().unwrap_or("").to_string();
        if level != "error" && level != "warning" {
            continue;
        }
        let message = v["message"].as_str().unwrap_or("").to_string();
        if message.starts_with("aborting due to") || message.contains("warning emitted") || message.contains("warnings emitted") {
            continue;
        }
        let code = v["code"]["code"].as_str().unwrap_or("").to_string();
        // find a line in our file: follow expansion chains outward
        let mut lines: Vec<usize> = Vec::new();
        fn walk(sp: &Value, file_s: &str, lines: &mut Vec<usize>) {
            let mut cur = sp;
            let mut last_in_file: Option<usize> = None;
            loop {
                if cur["file_name"].as_str() == Some(file_s) {
                    last_in_file = cur["line_start"].as_u64().map(|x| x as usize);
                }
                let ex = &cur["expansion"];
                if ex.is_null() {
                    break;
                }
                cur = &ex["span"];
            }
            if let Some(l) = last_in_file {
                lines.push(l);
            }
        }
        if let Some(spans) = v["spans"].as_array() {
            // primary spans first
            for sp in spans.iter().filter(|s| s["is_primary"].as_bool() == Some(true)) {
                walk(sp, &file_s, &mut lines);
            }
            if lines.is_empty() {
                for sp in spans {
                    walk(sp, &file_s, &mut lines);
                }
            }
        }
        if lines.is_empty() {
            if let Some(ch) = v["children"].as_array() {
                for c in ch {
                    if let Some(spans) = c["spans"].as_array() {
                        for sp in spans {
                            walk(sp, &file_s, &mut lines);
                        }
                    }
                }
            }
        }
        // located in derive_ex's output?
        fn in_dx(sp: &Value) -> bool {
            let mut cur = sp;
            loop {
                let ex = &cur["expansion"];
                if ex.is_null() {
                    return false;
                }
                let name = ex["macro_decl_name"].as_str().unwrap_or("");
                if name.contains("derive_ex") || name.contains("derive(Ex)") || name.contains("Ex)") {
                    return true;
                }
                cur = &ex["span"];
            }
        }
        let in_macro = v["spans"].as_array().map(|a| a.iter().any(|sp| in_dx(sp))).unwrap_or(false);
        let d = Diag { level, code, message, in_macro };
        let mut hit = None;
        for l in &lines {
            if let Some(k) = ranges.iter().position(|r| r.0 <= *l && *l <= r.1) {
                hit = Some(k);
                break;
            }
        }
        match hit {
            Some(k) => fo.diags[k].push(d),
            None => fo.unattributed.push(d),
        }
    }
    let any_error = fo.diags.iter().flatten().any(|d| d.level == "error") || fo.unattributed.iter().any(|d| d.level == "error");
    if !out.status.success() && !any_error {
        let tail: String = String::from_utf8_lossy(&out.stderr).chars().rev().take(1500).collect::<String>().chars().rev().collect();
        machinery(&format!("rustc failed on {file_s} without a diagnostic: {tail}"));
    }
    if opts.mode == Mode::Run && out.status.success() {
        let r = Command::new("timeout").arg("120").arg(&exe).output();
        match r {
            Ok(o) => {
                fo.ran = true;
                let text = String::from_utf8_lossy(&o.stdout).to_string();
                for l in text.lines() {
                    if let Some(rest) = l.strip_prefix("CASE ") {
                        let mut it = rest.splitn(3, ' ');
                        let idx: usize = it.next().and_then(|s| s.parse().ok()).unwrap_or(usize::MAX);
                        let st = it.next().unwrap_or("");
                        let body = it.next().unwrap_or("").to_string();
                        if let Some(k) = idxs.iter().position(|&i| i == idx) {
                            if st == "OK" {
                                fo.outputs[k].0 = Some(body);
                            } else {
                                fo.outputs[k].1 = Some(body);
                            }
                        }
                    }
                }
                if !o.status.success() {
                    fo.run_failure = Some(format!("exit status {:?}; stderr tail: {}", o.status.code(), String::from_utf8_lossy(&o.stderr).chars().rev().take(400).collect::<String>().chars().rev().collect::<String>()));
                }
            }
            Err(e) => machinery(&format!("cannot run {exe:?}: {e}")),
        }
        let _ = std::fs::remove_file(&exe);
    }
    fo
}

static RUN_SEQ: AtomicU64 = AtomicU64::new(0);

/// Compile (and run) all cases; every case gets a verdict by iterating: cases that drew a
/// diagnostic are set aside, the rest is recompiled, until each file is clean.
pub fn run_cases(cases: &[Case], opts: &Opts) -> Vec<CaseResult> {
    let seq = RUN_SEQ.fetch_add(1, Ordering::Relaxed);
    let dir = work().join("gen").join(format!("{}-{}-{}", opts.label, std::process::id(), seq));
    let _ = std::fs::remove_dir_all(&dir);
    std::fs::create_dir_all(&dir).unwrap_or_else(|e| machinery(&format!("cannot create {dir:?}: {e}")));
    let mut results: Vec<CaseResult> = vec![CaseResult::default(); cases.len()];
    let mut pending: Vec<usize> = (0..cases.len()).collect();
    let mut round = 0u64;
    let mut single_mode = false;
    while !pending.is_empty() {
        round += 1;
        if round > 12 {
            machinery(&format!("{}: batch protocol did not converge in 12 rounds ({} cases pending)", opts.label, pending.len()));
        }
        let per = if single_mode { 1 } else { opts.per_file.max(1) };
        let batches: Vec<Batch> = pending.chunks(per).map(|c| Batch { idxs: c.to_vec() }).collect();
        let outs = par_map(&batches, threads(), |bi, b| compile_file(&dir, &format!("r{}b{}", round, bi), cases, &b.idxs, opts));
        let mut next: Vec<usize> = Vec::new();
        let mut unattributed_total = 0;
        for (b, fo) in batches.iter().zip(outs.iter()) {
            let failing: Vec<bool> = fo.diags.iter().map(|d| d.iter().any(|x| x.level == "error")).collect();
            let any_fail = failing.iter().any(|x| *x) || fo.unattributed.iter().any(|d| d.level == "error");
            if !fo.unattributed.is_empty() {
                if b.idxs.len() == 1 {
                    // a single-case file: everything belongs to that case
                    results[b.idxs[0]].diags.extend(fo.unattributed.iter().cloned());
                } else if fo.unattributed.iter().any(|d| d.level == "error") {
                    unattributed_total += 1;
                }
            }
            for (k, &i) in b.idxs.iter().enumerate() {
                if failing[k] {
                    results[i].diags = fo.diags[k].clone();
                } else if any_fail {
                    // file did not compile because of other cases: retry this one
                    if b.idxs.len() == 1 {
                        // (single case with only unattributed errors: verdict already stored)
                    } else {
                        next.push(i);
                    }
                } else {
                    // clean file: warnings (if any) are final
                    results[i].diags = fo.diags[k].clone();
                    if opts.mode == Mode::Run {
                        match (&fo.outputs[k].0, &fo.outputs[k].1) {
                            (Some(o), _) => results[i].output = Some(o.clone()),
                            (None, Some(p)) => results[i].panicked = Some(p.clone()),
                            (None, None) => {
                                if b.idxs.len() == 1 {
                                    results[i].panicked = Some(format!("no observation line (process died): {}", fo.run_failure.clone().unwrap_or_default()));
                                } else {
                                    next.push(i); // crashed somewhere in this batch: isolate
                                    single_mode = true;
                                }
                            }
                        }
                    }
                }
            }
        }
        if unattributed_total > 0 && next.len() == pending.len() {
            // no progress possible through attribution: fall back to one case per file
            if single_mode {
                machinery(&format!("{}: unattributable diagnostics even in single-case files", opts.label));
            }
            single_mode = true;
        }
        if next.len() == pending.len() && !single_mode {
            single_mode = true;
        }
        pending = next;
    }
    STATS.rounds_max.fetch_max(round, Ordering::Relaxed);
    if std::env::var("DX_KEEP_GEN").is_err() {
        let _ = std::fs::remove_dir_all(&dir);
    }
    results
}

/// Compile all cases in one round (no iteration): returns, per case, the messages of the error
/// diagnostics attributed to it.  Used where every case is expected to fail at expansion time
/// (`dump`), so that later phases never run and nothing is hidden.
pub fn diagnostics_once(cases: &[Case], opts: &Opts) -> Vec<Vec<String>> {
    let seq = RUN_SEQ.fetch_add(1, Ordering::Relaxed);
    let dir = work().join("gen").join(format!("{}-{}-{}", opts.label, std::process::id(), seq));
    let _ = std::fs::remove_dir_all(&dir);
    std::fs::create_dir_all(&dir).unwrap_or_else(|e| machinery(&format!("cannot create {dir:?}: {e}")));
    let all: Vec<usize> = (0..cases.len()).collect();
    let batches: Vec<Vec<usize>> = all.chunks(opts.per_file.max(1)).map(|c| c.to_vec()).collect();
    let outs = par_map(&batches, threads(), |bi, b| compile_file(&dir, &format!("d{}", bi), cases, b, opts));
    let mut res: Vec<Vec<String>> = vec![Vec::new(); cases.len()];
    for (b, fo) in batches.iter().zip(outs.iter()) {
        for (k, &i) in b.iter().enumerate() {
            res[i] = fo.diags[k].iter().filter(|d| d.level == "error").map(|d| d.message.clone()).collect();
        }
    }
    if std::env::var("DX_KEEP_GEN").is_err() {
        let _ = std::fs::remove_dir_all(&dir);
    }
    res
}
