//! C17 — derive_ex(Eq) is refused unless every compared component is Eq (channels E, R).

use crate::expand::Entry;
use crate::explore::{explore, replay, Ch};
use crate::gen::*;
use crate::report::{Report, Violation};
use crate::runner;
use crate::Ctx;
use serde_json::json;
use std::collections::BTreeSet;

#[derive(Clone, Copy, PartialEq, Eq, Debug)]
enum FT {
    U8,
    F32,
    T,
    /// `&'a f32`: a non-Eq field type that mentions a LIFETIME parameter of the item
    RefF32,
    /// `W<T>`: mentions the type parameter and is never Eq (PartialEq only); compared by a function or ignored, it must
    /// not keep `X<u8>` from being Eq
    WT,
}
/// what one of the two attributes (`eq`, `ord`) on a field carries
#[derive(Clone, Copy, PartialEq, Eq, Debug)]
enum A1 {
    None,
    Ignore,
    KeyEq,
    KeyNonEq,
    By,
    /// `by = ..` AND `key = <non-Eq value>` in ONE attribute (the function for the comparison, the key for Hash): the
    /// function decides `==`, so the field is exempt like any `by` field
    ByKeyNonEq,
}
const A1S: [A1; 6] = [A1::None, A1::Ignore, A1::KeyEq, A1::KeyNonEq, A1::By, A1::ByKeyNonEq];

/// (eq attribute, ord attribute) on one field
#[derive(Clone, Copy, PartialEq, Eq, Debug)]
struct FA {
    eq: A1,
    ord: A1,
    /// `#[partial_eq(..)]` (only with a co-derived PartialEq and next to an eq / ord key or by): the comparator `==` really uses
    peq: A1,
    /// `#[partial_ord(..)]` (only with the list Eq, PartialEq, PartialOrd, Ord next to `#[ord(key = <Eq, Ord value>)]`)
    pord: A1,
}
impl FA {
    const NONE: FA = FA { eq: A1::None, ord: A1::None, peq: A1::None, pord: A1::None };
}

#[derive(Clone, Copy, PartialEq, Eq, Debug)]
enum GMode {
    /// default bound (T: Eq is generated for compared T fields)
    Default,
    /// `Eq(bound())`
    Empty,
    /// `Eq(bound(T: PartialEq))`
    PartialEqOnly,
}

#[derive(Clone, Debug)]
struct Case {
    vector: Vec<usize>,
    container: usize,
    fields: Vec<(FT, FA)>,
    gmode: GMode,
    with_partial_eq: bool,
    /// `Hash` is derived as well; every field then carries `#[hash(ignore)]` (which must not exempt it from the Eq check)
    with_hash: bool,
    /// `#[derive_ex(Eq)] #[::derive_ex::derive_ex(PartialEq)]`: two lists, the second one written with the absolute path
    split: bool,
    entry: Entry,
}

fn attr_text(ft: FT, fa: FA) -> Option<String> {
    let (eq_key, non_eq_key) = match ft {
        FT::U8 => ("$ as u16", "$ as f32"),
        FT::F32 => ("$.to_bits()", "$ * 2.0"),
        FT::RefF32 => ("$.to_bits()", "*$ * 2.0"),
        FT::T | FT::WT => ("", ""),
    };
    let one = |name: &str, a: A1| -> Option<String> {
        Some(match a {
            A1::None => String::new(),
            A1::Ignore => format!("#[{name}(ignore)]"),
            A1::KeyEq | A1::KeyNonEq if matches!(ft, FT::T | FT::WT) => return None, // no keys on a bare type parameter
            A1::KeyEq => format!("#[{name}(key = {eq_key})]"),
            A1::KeyNonEq => format!("#[{name}(key = {non_eq_key})]"),
            A1::ByKeyNonEq if matches!(ft, FT::T | FT::WT) => return None,
            A1::ByKeyNonEq => {
                if name == "eq" || name == "partial_eq" {
                    format!("#[{name}(by = |_, _| true, key = {non_eq_key})]")
                } else {
                    format!("#[ord(by = |_, _| ::core::cmp::Ordering::Equal, key = {non_eq_key})]")
                }
            }
            A1::By => {
                if name == "eq" || name == "partial_eq" {
                    format!("#[{name}(by = |_, _| true)]")
                } else {
                    "#[ord(by = |_, _| ::core::cmp::Ordering::Equal)]".to_string()
                }
            }
        })
    };
    let e = one("eq", fa.eq)?;
    let o = one("ord", fa.ord)?;
    let pe = one("partial_eq", fa.peq)?;
    let po = one("partial_ord", fa.pord)?;
    Some(format!("{pe} {e} {po} {o}").split_whitespace().collect::<Vec<_>>().join(" ").replace("key = $", "key = $ ").replace("$  ", "$ ").replace("by = |_, _|", "by = |_, _| ").replace("|  ", "| "))
}

/// reference: does this field force a rejection?  (precedence for Eq: eq, then ord)
fn field_rejects(ft: FT, fa: FA, gmode: GMode) -> bool {
    if fa.eq == A1::Ignore || fa.ord == A1::Ignore {
        return false;
    }
    // precedence of the comparator `==` uses: partial_eq, eq, partial_ord, ord
    for a in [fa.peq, fa.eq, fa.pord, fa.ord] {
        match a {
            A1::By | A1::ByKeyNonEq | A1::KeyEq => return false,
            A1::KeyNonEq => return true,
            _ => {}
        }
    }
    match ft {
        FT::U8 => false,
        FT::F32 | FT::RefF32 | FT::WT => true,
        FT::T => gmode != GMode::Default,
    }
}

fn gen(ch: &mut Ch, thorough: bool) -> Option<Case> {
    let container = ch.pick(4); // 0 tuple struct, 1 named struct, 2 enum variant, 3 second of two field-carrying variants
    let n = 1 + ch.pick(if thorough { 3 } else { 2 });
    let mut fields = Vec::new();
    let mut dev = 0;
    for _ in 0..n {
        let ft = *ch.of(&[FT::U8, FT::F32, FT::T, FT::RefF32, FT::WT]);
        let mut fa = FA { eq: *ch.of(&A1S), ord: *ch.of(&A1S), peq: A1::None, pord: A1::None };
        let custom = |a: A1| matches!(a, A1::KeyEq | A1::KeyNonEq | A1::By | A1::ByKeyNonEq);
        let _ = custom;
        if !matches!(ft, FT::T | FT::WT) && fa.eq != A1::Ignore && fa.ord != A1::Ignore {
            fa.peq = *ch.of(&[A1::None, A1::KeyEq, A1::KeyNonEq, A1::By]);
        }
        // next to `#[ord(key = <Eq, Ord value>)]`; on a float field also together with `#[eq(key = <Eq value>)]`, which is
        // then what `==` must use (not the partial_ord key)
        if (ft == FT::U8 && fa.eq == A1::None || ft == FT::F32 && matches!(fa.eq, A1::None | A1::KeyEq)) && fa.ord == A1::KeyEq && fa.peq == A1::None {
            fa.pord = *ch.of(&[A1::None, A1::KeyEq, A1::KeyNonEq]);
        }
        attr_text(ft, fa)?;
        if fa != FA::NONE {
            dev += 1;
        }
        // both attributes on one field only in the 1- and 2-field shapes
        if n == 3 && fa.eq != A1::None && fa.ord != A1::None {
            return None;
        }
        if n == 3 && dev > 2 {
            return None;
        }
        fields.push((ft, fa));
    }
    let has_t = fields.iter().any(|f| matches!(f.0, FT::T | FT::WT));
    // the never-Eq generic type only under the default bound, next to u8 / T fields
    if fields.iter().any(|f| f.0 == FT::WT) && fields.iter().any(|f| matches!(f.0, FT::F32 | FT::RefF32)) {
        return None;
    }
    // the lifetime-mentioning field type only on its own or next to plain u8 fields without attributes
    if fields.iter().any(|f| f.0 == FT::RefF32) && (has_t || n == 3 || fields.iter().any(|f| f.0 != FT::RefF32 && (f.0 != FT::U8 || f.1 != FA::NONE))) {
        return None;
    }
    if container == 3 && (has_t || n == 3) {
        return None;
    }
    let gmode = if has_t { *ch.of(&[GMode::Default, GMode::Empty, GMode::PartialEqOnly]) } else { GMode::Default };
    if gmode != GMode::Default && fields.iter().any(|f| f.0 == FT::WT) {
        return None;
    }
    let with_partial_eq = ch.flag();
    // a co-derived (conditional) PartialEq is only meaningful when Eq's impl carries the default bound
    if with_partial_eq && gmode != GMode::Default {
        return None;
    }
    if fields.iter().any(|f| f.1.peq != A1::None || f.1.pord != A1::None) && !with_partial_eq {
        return None;
    }
    let with_ord = fields.iter().any(|f| f.1.pord != A1::None);
    // Ord / PartialOrd are then derived as well: every field must be orderable through its attributes or its type
    let not_orderable = |f: &(FT, FA)| match f.0 {
        FT::U8 => matches!(f.1.ord, A1::KeyNonEq | A1::Ignore) || f.1.eq != A1::None && f.1.ord == A1::None,
        FT::F32 => !matches!(f.1.ord, A1::KeyEq | A1::By),
        _ => true,
    };
    if with_ord && fields.iter().any(not_orderable) {
        return None;
    }
    let with_hash = ch.flag();
    if with_hash && with_ord {
        return None;
    }
    if with_hash && (!with_partial_eq || has_t || (n > 1 && dev > 1)) {
        return None;
    }
    let entry = *ch.of(&Entry::BOTH);
    if with_hash && entry == Entry::Derive {
        return None;
    }
    if entry == Entry::Derive && (n > 1 && !thorough) {
        return None;
    }
    if with_partial_eq && !thorough && n > 1 && container != 0 {
        return None;
    }
    if !thorough && n == 2 && dev == 2 && (container != 0 || with_partial_eq) {
        return None;
    }
    if n == 3 && (container == 1 || with_partial_eq || entry == Entry::Derive) {
        return None;
    }
    let split = ch.flag();
    if split && !(with_partial_eq && !with_hash && !with_ord && entry == Entry::Attr && n == 1) {
        return None;
    }
    Some(Case { vector: ch.vector(), container, fields, gmode, with_partial_eq, with_hash, split, entry })
}

fn program(c: &Case) -> (String, String) {
    let has_t = c.fields.iter().any(|f| matches!(f.0, FT::T | FT::WT));
    let has_wt = c.fields.iter().any(|f| f.0 == FT::WT);
    let has_lt = c.fields.iter().any(|f| f.0 == FT::RefF32);
    let g = if has_t { "<T>" } else if has_lt { "<'a>" } else { "" };
    let fs: Vec<FieldDef> = c.fields.iter().map(|(ft, fa)| {
        let ty = match ft {
            FT::U8 => "u8",
            FT::F32 => "f32",
            FT::RefF32 => "&'a f32",
            FT::T => "T",
            FT::WT => "W<T>",
        };
        let f = FieldDef::tuple(ty).attr(&attr_text(*ft, *fa).unwrap());
        if c.with_hash { f.attr("#[hash(ignore)]") } else { f }
    }).collect();
    let item = match c.container {
        0 => ItemDef::strukt("X", g, FieldsDef::of(false, fs)),
        1 => ItemDef::strukt("X", g, FieldsDef::of(true, fs)),
        2 => ItemDef::enm("X", g, vec![VariantDef::new("A", FieldsDef::Unit), VariantDef::new("B", FieldsDef::of(false, fs))]),
        // an earlier variant with the same number of (Eq) fields at the same positions
        _ => ItemDef::enm("X", g, vec![VariantDef::new("A", FieldsDef::of(false, (0..c.fields.len()).map(|_| FieldDef::tuple("u8")).collect())), VariantDef::new("B", FieldsDef::of(false, fs))]),
    };
    let eq_arg = match c.gmode {
        GMode::Default => "Eq".to_string(),
        GMode::Empty => "Eq(bound())".to_string(),
        GMode::PartialEqOnly => "Eq(bound(T: ::core::cmp::PartialEq))".to_string(),
    };
    let with_ord = c.fields.iter().any(|f| f.1.pord != A1::None);
    let eq_arg2 = eq_arg.clone();
    let list = if with_ord { format!("{eq_arg}, PartialEq, PartialOrd, Ord") } else if c.with_hash { format!("{eq_arg}, PartialEq, Hash") } else if c.with_partial_eq { format!("{eq_arg}, PartialEq") } else { eq_arg };
    let head = match c.entry {
        Entry::Attr if c.split => format!("#[derive_ex({eq_arg2})]\n#[::derive_ex::derive_ex(PartialEq)]"),
        Entry::Attr => format!("#[derive_ex({list})]"),
        Entry::Derive => format!("#[derive(Ex)]\n#[derive_ex({list})]"),
    };
    let mut s = String::new();
    s.push_str("use derive_ex::{derive_ex, Ex};\n");
    // user traits that happen to be called like the std ones the assertion needs, implemented for the float types
    s.push_str("#[allow(dead_code)] pub trait Eq {}\nimpl Eq for f32 {}\nimpl<'x> Eq for &'x f32 {}\n#[allow(dead_code)] pub trait Sized {}\n");
    s.push_str(&format!("{head}\npub {}\n", item.print()));
    if !c.with_partial_eq {
        s.push_str(&format!("impl{g} ::core::cmp::PartialEq for X{g} {{ fn eq(&self, _: &Self) -> bool {{ true }} }}\n"));
    }
    if has_wt {
        s.push_str("pub struct W<T>(pub T);\nimpl<T> ::core::cmp::PartialEq for W<T> { fn eq(&self, _: &Self) -> bool { true } }\n");
    }
    if has_t {
        // the instantiation with an Eq argument must BE Eq (a generic definition alone compiles whatever its where-clause says)
        s.push_str("const _: fn() = || { fn is_eq<E: ::core::cmp::Eq>() {} is_eq::<X<u8>>(); };\n");
    }
    (s, format!("{head} {}", item.print()))
}

pub fn run(ctx: &Ctx, rep: &mut Report) {
    let thorough = ctx.tier.is_thorough();
    rep.rule = "terminal state = (container in {tuple struct, named struct, enum variant}, 1..3 fields each of type {u8 (Eq), f32 (PartialEq only), T} with an `eq` and an `ord` attribute each in {absent, ignore, key yielding Eq, key yielding non-Eq, by} (plus, with a co-derived PartialEq, a `partial_eq` key / by and, with Ord + PartialOrd co-derived, a `partial_ord` key: the comparators `==` prefers), by}, bound mode for generic types in {default, Eq(bound()), Eq(bound(T: PartialEq))}, PartialEq hand-written or co-derived, entry point); every case compiled metadata-only by real rustc; distinct by program text; non-trivial = at least one attribute or a non-Eq / generic field".into();
    rep.assumptions = vec!["reference: reject iff some field that takes part in equality (not ignored, not `by`) has a non-Eq effective component (key value, else the field type; a bare T counts as Eq only under the default T: Eq bound)".into(), "accept = rustc reports no error for the case; reject = at least one error attributed to the case".into()];
    let mut cases = Vec::new();
    if let Some(p) = &ctx.replay {
        let v: serde_json::Value = serde_json::from_str(&std::fs::read_to_string(p).expect("replay file")).expect("replay json");
        let vec: Vec<usize> = v["case"]["vector"].as_array().unwrap().iter().map(|x| x.as_u64().unwrap() as usize).collect();
        let th = v["case"]["tier"] == "thorough";
        cases.push(replay(|ch| gen(ch, th), &vec).unwrap_or_else(|| crate::report::machinery("replayed vector is pruned")));
    } else {
        let st = explore(|ch| gen(ch, thorough), |_, c| cases.push(c));
        rep.stats.add(&st);
    }
    let progs: Vec<(String, String)> = cases.iter().map(program).collect();
    // accept- and reject-predicted cases go to separate batches (fewer protocol rounds)
    let mut order: Vec<usize> = (0..cases.len()).collect();
    let predicted: Vec<bool> = cases.iter().map(|c| c.fields.iter().any(|(ft, fa)| field_rejects(*ft, *fa, c.gmode))).collect();
    order.sort_by_key(|&i| predicted[i]);
    let rcases: Vec<runner::Case> = order.iter().map(|&i| runner::Case { code: progs[i].0.clone() }).collect();
    let mut opts = runner::Opts::check("c17");
    opts.per_file = 100;
    let res = runner::run_cases(&rcases, &opts);
    for (k, &i) in order.iter().enumerate() {
        let c = &cases[i];
        let r = &res[k];
        let reject = predicted[i];
        let got_reject = !r.compiled();
        rep.validated += 1;
        let nontrivial = c.fields.iter().any(|f| f.1 != FA::NONE || f.0 != FT::U8);
        rep.case(&progs[i].1, nontrivial);
        rep.outcome(&format!("predicted-{}:{}", if reject { "reject" } else { "accept" }, if got_reject { "rejected" } else { "accepted" }));
        if got_reject {
            rep.outcome(&format!("rustc:{}", r.codes()));
        }
        // with a `partial_eq` / `partial_ord` attribute next to an `eq` / `ord` one the statement is used in its stated
        // direction only (compiles => every compared component is Eq): refusing such a type is not an alarm
        let extra_attr = c.fields.iter().any(|f| f.1.peq != A1::None || f.1.pord != A1::None);
        if reject != got_reject && !(extra_attr && !reject) {
            let mut atoms = BTreeSet::new();
            atoms.insert(format!("entry={}", c.entry.name()));
            atoms.insert(format!("gmode={:?}", c.gmode));
            atoms.insert(format!("with_partial_eq={}", c.with_partial_eq));
            atoms.insert(format!("with_hash={}", c.with_hash));
            for (ft, fa) in &c.fields {
                atoms.insert(format!("field={:?}/{:?}", ft, fa));
            }
            let what = if reject { format!("`{}` compiles although a compared component is not Eq", progs[i].1) } else { format!("`{}` is refused although every compared component is Eq: {}", progs[i].1, r.errors().iter().map(|e| format!("{} {}", e.code, runner::first_line(&e.message))).collect::<Vec<_>>().join(" | ")) };
            rep.violation(Violation { symptom: if reject { "non-eq-component-accepted".into() } else { "eq-type-refused".into() }, atoms, what, detail: json!({"vector": c.vector, "tier": ctx.tier.name(), "program": progs[i].0, "predicted_reject": reject, "rustc": r.errors().iter().map(|e| format!("{} {}", e.code, e.message)).collect::<Vec<_>>()}), standalone: Some(format!("{}\nfn main() {{}}\n", progs[i].0)) });
        } else if rep.samples.len() < 5 && nontrivial && c.fields.len() >= 2 {
            rep.sample(json!({"program": progs[i].1, "predicted": if reject { "refused" } else { "compiles" }, "rustc_errors": r.codes()}));
        }
    }
    // "can never silently become Eq": an accepted type with a co-derived `==` and a float field is executed on
    // NaN values - `==` must be reflexive on them (the float is ignored, compared by `by`, or through an Eq key)
    let probe_idx: Vec<usize> = (0..cases.len()).filter(|&i| !predicted[i] && cases[i].with_partial_eq && !cases[i].fields.iter().any(|f| matches!(f.0, FT::T | FT::WT)) && cases[i].fields.iter().any(|f| matches!(f.0, FT::F32 | FT::RefF32))).collect();
    let probes: Vec<runner::Case> = probe_idx.iter().map(|&i| {
        let c = &cases[i];
        let vals: Vec<String> = c.fields.iter().map(|f| match f.0 { FT::U8 => "1u8", FT::F32 => "f32::NAN", FT::RefF32 => "&f32::NAN", FT::T | FT::WT => unreachable!() }.to_string()).collect();
        let ctor = match c.container {
            0 => format!("X({})", vals.join(", ")),
            1 => format!("X {{ {} }}", vals.iter().enumerate().map(|(k, v)| format!("{}: {v}", fname(k))).collect::<Vec<_>>().join(", ")),
            _ => format!("X::B({})", vals.join(", ")),
        };
        runner::Case { code: format!("{}pub fn run() -> String {{ let v = {ctor}; let w = {ctor}; format!(\"{{}}{{}}\", v == v, v == w) }}\n", progs[i].0) }
    }).collect();
    let pres = if probes.is_empty() { Vec::new() } else { runner::run_cases(&probes, &runner::Opts::run("c17x")) };
    for (k, &i) in probe_idx.iter().enumerate() {
        let c = &cases[i];
        let r = &pres[k];
        rep.inner_evaluations += 1;
        if !r.compiled() {
            continue; // decided above
        }
        let out = r.output.clone().unwrap_or_default();
        rep.outcome(&format!("reflexivity-on-NaN:{out}"));
        if out != "truetrue" {
            let mut atoms = BTreeSet::new();
            atoms.insert(format!("entry={}", c.entry.name()));
            for (ft, fa) in &c.fields {
                atoms.insert(format!("field={:?}/{:?}", ft, fa));
            }
            rep.violation(Violation { symptom: "eq-type-compares-a-float".into(), atoms, what: format!("`{}` is Eq, but `==` is not reflexive on NaN field values (v == v, v == w: {out}): a float-like component takes part in equality", progs[i].1), detail: json!({"vector": c.vector, "tier": ctx.tier.name(), "program": probes[k].code, "observed": out}), standalone: Some(format!("mod case {{\n{}\n}}\nfn main() {{ assert_eq!(case::run(), \"truetrue\"); }}\n", probes[k].code)) });
        }
    }
    rep.set("reflexivity_probes_executed", json!(probe_idx.len()));
    rep.set("rustc_invocations", json!(runner::STATS.rustc_invocations.load(std::sync::atomic::Ordering::Relaxed)));
    rep.set("rustc_rounds_max", json!(runner::STATS.rounds_max.load(std::sync::atomic::Ordering::Relaxed)));
}
