//! C05 — documented misuse of comparison attributes is rejected, valid use accepted.
//! Channel E over all 3136 per-field combinations (DESIGN.md 5/C05); R cross-check of the
//! <= 1-attribute slice through real rustc.

use crate::expand::{self, Aligned, Entry};
use crate::explore::{explore, par_map, replay, threads, Ch};
use crate::gen::*;
use crate::refmodel::*;
use crate::report::{Report, Violation};
use crate::runner;
use crate::Ctx;
use serde_json::json;
use std::collections::BTreeSet;

#[derive(Clone, Debug)]
pub struct Case {
    pub vector: Vec<usize>,
    pub derived: Vec<Tr>,
    pub container: Container,
    pub entry: Entry,
    pub combo: Combo,
    pub attr: String,
    pub item: String,
}

const PLACEMENTS: [Container; 3] = [Container::NamedStruct, Container::TupleStruct, Container::EnumTupleVariant];

pub fn slices() -> Vec<Vec<Tr>> {
    let mut v = vec![vec![Ord, PartialOrd, Eq, PartialEq, Hash]];
    v.extend(closed_subsets());
    v
}

fn gen_case(ch: &mut Ch, thorough: bool) -> Option<Case> {
    let sl = slices();
    let si = ch.pick(sl.len());
    let derived = sl[si].clone();
    let container = *ch.of(&PLACEMENTS);
    let entry = *ch.of(&Entry::BOTH);
    if si > 0 && !thorough && (container != Container::NamedStruct || entry != Entry::Attr) {
        return None; // quick tier: subsets only on the struct-field slice
    }
    let mut combo = Combo::PLAIN;
    for t in Tr::ALL {
        let menu: &[Arg] = if matches!(t, Ord | PartialOrd) { &Arg::ORD7 } else { &Arg::EQ4 };
        let a = *ch.of(menu);
        if a != Arg::None && !recognised(t, &derived) {
            return None;
        }
        combo = combo.with(t, a);
    }
    // the configured field next to a plain one, or alone in its struct / variant
    let ctx = *ch.of(&[crate::gen::Ctx::FirstOf2, crate::gen::Ctx::Alone]);
    if ctx == crate::gen::Ctx::Alone && si > 0 && !thorough {
        return None;
    }
    let attrs = combo_attrs(&combo, KeyStyle::Distinct, KeyForm::Method);
    let item = single_field_item(container, ctx, "dxrt::V", &attrs, "");
    Some(Case { vector: ch.vector(), attr: names(&derived).join(", "), item: item.print(), derived, container, entry, combo })
}

#[derive(Debug)]
pub struct Outcome {
    /// per derived trait: observed error message (None = impl generated)
    pub observed: Result<Vec<Option<String>>, String>,
    /// attribute entry: comparison helper attributes still present on the re-emitted item (rustc then refuses the
    /// program with "cannot find attribute", whatever the expander said about the traits)
    pub leftover: Vec<String>,
}

fn leftover_helpers(items: &[expand::OutItem]) -> Vec<String> {
    let mut out = Vec::new();
    fn scan(attrs: &[syn::Attribute], out: &mut Vec<String>) {
        for a in attrs {
            if let Some(i) = a.path().get_ident() {
                let s = i.to_string();
                if ["ord", "partial_ord", "eq", "partial_eq", "hash"].contains(&s.as_str()) && !out.contains(&s) {
                    out.push(s);
                }
            }
        }
    }
    match items.first() {
        Some(expand::OutItem::Item(syn::Item::Struct(s))) => {
            scan(&s.attrs, &mut out);
            for f in s.fields.iter() {
                scan(&f.attrs, &mut out);
            }
        }
        Some(expand::OutItem::Item(syn::Item::Enum(e))) => {
            scan(&e.attrs, &mut out);
            for v in e.variants.iter() {
                scan(&v.attrs, &mut out);
                for f in v.fields.iter() {
                    scan(&f.attrs, &mut out);
                }
            }
        }
        _ => {}
    }
    out
}

pub fn evaluate(c: &Case) -> Outcome {
    let traits = names(&c.derived);
    let r = expand::expand_aligned(c.entry, &c.attr, &c.item, &traits);
    let leftover = match (&r, c.entry) {
        (Ok((items, _)), Entry::Attr) => leftover_helpers(items),
        _ => Vec::new(),
    };
    Outcome {
        leftover,
        observed: match r {
            Err(e) => Err(e),
            Ok((_, Aligned::Whole(m))) => Err(format!("whole derivation failed: {m}")),
            Ok((_, Aligned::PerTrait(slots))) => Ok(slots.iter().map(|s| s.error().map(String::from)).collect()),
        },
    }
}

fn atoms_of(c: &Case, t: Option<Tr>) -> BTreeSet<String> {
    let mut a = BTreeSet::new();
    a.insert(format!("entry={}", c.entry.name()));
    a.insert(format!("container={}", c.container.name()));
    a.insert(format!("derived={}", names(&c.derived).join("+")));
    for x in Tr::ALL {
        a.insert(format!("{}={}", x.attr(), c.combo.get(x).short()));
    }
    if let Some(t) = t {
        a.insert(format!("trait={}", t.name()));
    }
    a
}

pub fn run(ctx: &Ctx, rep: &mut Report) {
    let thorough = ctx.tier.is_thorough();
    rep.rule = "terminal state = (derived set, placement, entry point, one of the 3136 per-field combinations of ord/partial_ord x {-,ignore,reverse,key,by,reverse+key,reverse+by} and eq/partial_eq/hash x {-,ignore,key,by}); plus the 4x5 misplaced arguments on types and variants; distinct by program text; non-trivial = at least one helper attribute present and the expansion aligned with the trait list".into();
    rep.assumptions = vec![
        "reference acceptance rules R1-R4 of DESIGN.md 5/C05 (written from doc/derive_ex.md); interpretations I1, I3".into(),
        "channel E calls the repository's own entry functions through proc-macro2's fallback implementation; bound to the real pipeline by the rustc cross-check slice".into(),
    ];
    let mut cases: Vec<Case> = Vec::new();
    if let Some(p) = &ctx.replay {
        let v: serde_json::Value = serde_json::from_str(&std::fs::read_to_string(p).expect("replay file")).expect("replay json");
        if v["case"]["gen"] == "combo" {
            let vec: Vec<usize> = v["case"]["vector"].as_array().unwrap().iter().map(|x| x.as_u64().unwrap() as usize).collect();
            let c = replay(|ch| gen_case(ch, true), &vec).expect("replayed vector is pruned");
            let o1 = evaluate(&c);
            let o2 = evaluate(&c);
            assert_eq!(format!("{o1:?}"), format!("{o2:?}"), "replay observations differ between two runs");
            cases.push(c);
        }
    } else {
        let st = explore(|ch| gen_case(ch, thorough), |_, c| cases.push(c));
        rep.stats.add(&st);
    }
    let outs = par_map(&cases, threads(), |_, c| evaluate(c));
    let mut rejected = [0u64; 5];
    let mut accepted = [0u64; 5];
    for (c, o) in cases.iter().zip(outs.iter()) {
        let text = format!("{} #[derive_ex({})] {}", c.entry.name(), c.attr, c.item);
        rep.case(&text, !c.combo.is_plain() && o.observed.is_ok());
        match &o.observed {
            Err(e) => {
                rep.violation(Violation {
                    symptom: "expansion-not-per-trait".into(),
                    atoms: atoms_of(c, None),
                    what: format!("{} on {}: {}", c.combo.describe(), c.container.name(), runner::first_line(e)),
                    detail: json!({"gen": "combo", "vector": c.vector, "entry": c.entry.name(), "attr": c.attr, "item": c.item, "observed": e}),
                    standalone: None,
                });
            }
            Ok(obs) => {
                if !o.leftover.is_empty() {
                    // every generated attribute affects a derived trait (documented table), so it is one of the
                    // attributes the macro owns: left in place, rustc answers "cannot find attribute"
                    rep.violation(Violation {
                        symptom: "valid-combination-rejected:helper-attribute-left-on-the-item".into(),
                        atoms: atoms_of(c, None),
                        what: format!("{} with derive_ex({}) via {} on {}: the re-emitted item still carries #[{}(..)]", c.combo.describe(), c.attr, c.entry.name(), c.container.name(), o.leftover.join("], #[")),
                        detail: json!({"gen": "combo", "vector": c.vector, "entry": c.entry.name(), "attr": c.attr, "item": c.item, "leftover": o.leftover}),
                        standalone: Some(standalone(c)),
                    });
                }
                for (k, &t) in c.derived.iter().enumerate() {
                    let exp_accept = ref_accept(&c.combo, t);
                    let got_accept = obs[k].is_none();
                    if got_accept {
                        accepted[t.idx()] += 1;
                    } else {
                        rejected[t.idx()] += 1;
                    }
                    rep.outcome(&format!("{}:{}", t.name(), if got_accept { "accepted" } else { "rejected" }));
                    if exp_accept != got_accept {
                        rep.violation(Violation {
                            symptom: if exp_accept { "valid-combination-rejected".into() } else { "misuse-accepted".into() },
                            atoms: atoms_of(c, Some(t)),
                            what: format!("{} with derive_ex({}) via {} on {}: reference says {} must be {}, expander {}", c.combo.describe(), c.attr, c.entry.name(), c.container.name(), t.name(), if exp_accept { "accepted" } else { "rejected" }, match &obs[k] { None => "generated an impl".to_string(), Some(m) => format!("reported: {}", runner::first_line(m)) }),
                            detail: json!({"gen": "combo", "vector": c.vector, "entry": c.entry.name(), "attr": c.attr, "item": c.item, "trait": t.name(), "expected_accept": exp_accept, "observed_error": obs[k]}),
                            standalone: Some(standalone(c)),
                        });
                    }
                }
                if rep.samples.len() < 3 && c.combo.n_set() >= 2 {
                    rep.sample(json!({"entry": c.entry.name(), "attr": c.attr, "item": c.item, "expected_accept": c.derived.iter().map(|&t| (t.name(), ref_accept(&c.combo, t))).collect::<Vec<_>>(), "observed_errors": obs}));
                }
            }
        }
    }
    rep.set("accepted_per_trait", json!(Tr::ALL.iter().map(|t| (t.name(), accepted[t.idx()])).collect::<Vec<_>>()));
    rep.set("rejected_per_trait", json!(Tr::ALL.iter().map(|t| (t.name(), rejected[t.idx()])).collect::<Vec<_>>()));

    if ctx.replay.is_none() {
        key_and_by(rep);
        misplaced(rep);
        cross_check(ctx, rep);
    }
}

/// R4: `ignore` / `reverse` / `key` / `by` on a type or on a variant is a compile error.
/// `key = ..` AND `by = ..` in ONE attribute: both are customisations, so a trait is accepted exactly if it would be
/// accepted with the key alone or with the function alone (Hash takes the key, the comparisons take the function);
/// a related derived trait that has to fall back to its default is still refused.
fn key_and_by(rep: &mut Report) {
    for derived in slices() {
        for entry in Entry::BOTH {
            for t in Tr::ALL {
                if !recognised(t, &derived) {
                    continue;
                }
                let with_key = Combo::PLAIN.with(t, Arg::Key);
                let with_by = Combo::PLAIN.with(t, Arg::By);
                let a_key = attr_text(t, Arg::Key, KeyStyle::Distinct, KeyForm::Method);
                let a_by = attr_text(t, Arg::By, KeyStyle::Distinct, KeyForm::Method);
                // `#[x(key = K)]` + `#[x(by = F)]` -> `#[x(key = K, by = F)]`
                let (Some(k), Some(b)) = (a_key.strip_suffix(")]"), a_by.split_once('(').map(|p| p.1)) else { continue };
                let both = format!("{k}, {b}");
                let item = single_field_item(Container::NamedStruct, crate::gen::Ctx::FirstOf2, "dxrt::V", &[both.clone()], "").print();
                let attr = names(&derived).join(", ");
                rep.stats.states += 1;
                rep.stats.transitions += 1;
                rep.stats.terminals += 1;
                let text = format!("{} #[derive_ex({})] {}", entry.name(), attr, item);
                rep.case(&text, true);
                let traits = names(&derived);
                let obs = match expand::expand_aligned(entry, &attr, &item, &traits) {
                    Ok((_, Aligned::PerTrait(slots))) => slots.iter().map(|s| s.error().map(String::from)).collect::<Vec<_>>(),
                    _ => {
                        rep.violation(Violation { symptom: "expansion-not-per-trait".into(), atoms: BTreeSet::new(), what: format!("{both} with derive_ex({attr}) via {}: the expansion is not one item per trait", entry.name()), detail: json!({"gen": "key-and-by", "entry": entry.name(), "attr": attr, "item": item}), standalone: None });
                        continue;
                    }
                };
                for (k, &d) in derived.iter().enumerate() {
                    let exp_accept = ref_accept(&with_key, d) || ref_accept(&with_by, d);
                    let got_accept = obs[k].is_none();
                    rep.outcome(&format!("key+by:{}:{}", d.name(), if got_accept { "accepted" } else { "rejected" }));
                    if exp_accept != got_accept {
                        let mut atoms = BTreeSet::new();
                        atoms.insert(format!("entry={}", entry.name()));
                        atoms.insert(format!("trait={}", d.name()));
                        atoms.insert(format!("{}=key+by", t.attr()));
                        rep.violation(Violation { symptom: if exp_accept { "valid-combination-rejected".into() } else { "misuse-accepted".into() }, atoms, what: format!("{both} with derive_ex({attr}) via {}: reference says {} must be {}, expander {}", entry.name(), d.name(), if exp_accept { "accepted" } else { "rejected" }, if got_accept { "accepts" } else { "rejects" }), detail: json!({"gen": "key-and-by", "entry": entry.name(), "attr": attr, "item": item, "trait": d.name()}), standalone: None });
                    }
                }
            }
        }
    }
}

fn misplaced(rep: &mut Report) {
    let args = ["ignore", "reverse", "key = $.k_ord()", "by = dxrt::by_ord"];
    let attr = "Ord, PartialOrd, Eq, PartialEq, Hash";
    let mut n = 0u64;
    for entry in Entry::BOTH {
        for on_variant in [false, true] {
            for is_enum in [false, true] {
                if on_variant && !is_enum {
                    continue;
                }
                for t in Tr::ALL {
                    for a in args {
                        let h = format!("#[{}({})]", t.attr(), a);
                        let item = if is_enum {
                            if on_variant {
                                format!("enum X {{ A, {h} B(u8) }}")
                            } else {
                                format!("{h} enum X {{ A, B(u8) }}")
                            }
                        } else {
                            format!("{h} struct X(u8);")
                        };
                        n += 1;
                        rep.stats.states += 1;
                        rep.stats.transitions += 1;
                        let text = format!("{} {} {}", entry.name(), attr, item);
                        rep.case(&text, true);
                        let r = expand::expand(entry, attr, &item).and_then(|ts| expand::parse_output(ts, entry == Entry::Attr));
                        let ok = match &r {
                            Ok(items) => items.iter().any(|i| matches!(i, expand::OutItem::Error(_))),
                            Err(_) => false,
                        };
                        rep.outcome(if ok { "misplaced:rejected" } else { "misplaced:accepted" });
                        if !ok {
                            let mut atoms = BTreeSet::new();
                            atoms.insert(format!("misplaced={}", a.split(' ').next().unwrap()));
                            atoms.insert(format!("attr={}", t.attr()));
                            atoms.insert(format!("target={}", if on_variant { "variant" } else { "type" }));
                            rep.violation(Violation {
                                symptom: "misplaced-argument-accepted".into(),
                                atoms,
                                what: format!("`{h}` on a {} is not reported as an error", if on_variant { "variant" } else { "type" }),
                                detail: json!({"gen": "misplaced", "entry": entry.name(), "attr": attr, "item": item, "observed": format!("{:?}", r.map(|v| v.len()))}),
                                standalone: None,
                            });
                        }
                    }
                }
            }
        }
    }
    rep.set("misplaced_cases", json!(n));
}

fn standalone(c: &Case) -> String {
    let head = match c.entry {
        Entry::Attr => format!("#[derive_ex::derive_ex({})]", c.attr),
        Entry::Derive => format!("#[derive(derive_ex::Ex)]\n#[derive_ex({})]", c.attr),
    };
    format!("// replay: compile with derive-ex and the dxrt crate of /verif/engine on the extern path\n{head}\n{}\nfn main() {{}}\n", c.item)
}

/// Pipeline binding: the "<= 1 attribute" slice through real rustc; accept/reject per case
/// must agree with the in-process prediction, and the `compile_error!` messages must be
/// the ones the in-process expansion produced.
fn cross_check(_ctx: &Ctx, rep: &mut Report) {
    let mut cases: Vec<Case> = Vec::new();
    let _ = explore(
        |ch| {
            let c = gen_case(ch, true)?;
            if c.combo.n_set() > 1 || c.derived.len() != 5 {
                return None;
            }
            Some(c)
        },
        |_, c| cases.push(c),
    );
    let rcases: Vec<runner::Case> = cases
        .iter()
        .map(|c| {
            let head = match c.entry {
                Entry::Attr => format!("#[derive_ex::derive_ex({})]", c.attr),
                Entry::Derive => format!("#[derive(derive_ex::Ex)]\n#[derive_ex({})]", c.attr),
            };
            runner::Case { code: format!("{head}\npub {}", c.item) }
        })
        .collect();
    let res = runner::run_cases(&rcases, &runner::Opts::check("c05x"));
    for (c, r) in cases.iter().zip(res.iter()) {
        let o = evaluate(c);
        let predicted: Vec<String> = match &o.observed {
            Ok(v) => v.iter().flatten().cloned().collect(),
            Err(e) => vec![e.clone()],
        };
        // compile_error! diagnostics carry no error code; coded errors located in generated code are C20's business
        let mut got: Vec<String> = r.errors().iter().filter(|d| d.code.is_empty()).map(|d| d.message.clone()).collect();
        let mut want = predicted.clone();
        got.sort();
        want.sort();
        rep.validated += 1;
        if got != want {
            rep.violation(Violation {
                symptom: "pipeline-disagrees-with-in-process-expansion".into(),
                atoms: atoms_of(c, None),
                what: format!("{} via {}: rustc reports {:?}, in-process expansion predicts {:?}", c.combo.describe(), c.entry.name(), got.iter().map(|m| runner::first_line(m)).collect::<Vec<_>>(), want.iter().map(|m| runner::first_line(m)).collect::<Vec<_>>()),
                detail: json!({"gen": "cross", "entry": c.entry.name(), "attr": c.attr, "item": c.item, "rustc": got, "predicted": want}),
                standalone: Some(standalone(c)),
            });
        }
    }
    rep.set("rustc_cross_checked", json!(cases.len()));
}
