//! C07 — clone is field-wise; clone_from leaves the target equal to a clone of the source.
//! Channel X with call-recording field types (DESIGN.md 5/C07).

use crate::expand::Entry;
use crate::explore::{explore, replay, Ch};
use crate::gen::*;
use crate::report::Report;
use crate::xrun::{run_and_compare, XCase};
use crate::Ctx;
use serde_json::json;
use std::collections::BTreeSet;

#[derive(Clone, Debug)]
struct Case {
    vector: Vec<usize>,
    shape: Shape,
    /// 0 = concrete `Rec` fields, 1 = `X<T>` with fields T / RecG<T> (T := Rec)
    generic: bool,
    /// `#[derive_ex(Copy, Clone)]` with Copy field types whose Clone still logs
    with_copy: bool,
    /// named fields are raw identifiers (r#type, r#fn, ..)
    raw: bool,
    /// explicit bound(..) without `..`: 0 none, 1 on the type (`Clone(bound(T: Clone))`), 2 on the first field,
    /// 3 `Clone(bound())` on the FIRST VARIANT (whose fields are concrete): later variants keep their default bounds
    bound: usize,
    /// concrete flavours: 0 none, 1 field type `RecI` (inherent methods named clone / clone_from), 2 tuple-typed
    /// fields `(Rec, u8)`, 3 `#[repr(C)]` on the item, 4 the definition comes out of a `macro_rules!` macro that gets
    /// the field type `Rec` as a `ty` fragment, 5 as an `ident` fragment (the token keeps the span of the macro's caller), 6 (generic) a const parameter declared before the type parameter: `X<const K: usize, T>`, 7 (generic) `X<T: Src>` whose fields have the projection type `T::Out` (the parameter only as the head of a path)
    special: usize,
    entry: Entry,
}

fn gen(ch: &mut Ch, thorough: bool) -> Option<Case> {
    // wide bodies (two-digit field positions) on three fixed shapes, otherwise Sh(n_v, n_f)
    let wide = ch.pick(5);
    let shape = match wide {
        0 => if thorough { pick_shape(ch, 4, 3, false) } else { pick_shape(ch, 3, 2, false) },
        1 => Shape { is_enum: false, variants: vec![VShape { kind: SKind::Tuple, n: 13 }] },
        2 => Shape { is_enum: false, variants: vec![VShape { kind: SKind::Named, n: 12 }] },
        3 => Shape { is_enum: true, variants: vec![VShape { kind: SKind::Tuple, n: 11 }, VShape { kind: SKind::Named, n: 12 }, VShape { kind: SKind::Unit, n: 0 }] },
        // many variants (clone_from has one arm per variant plus the replace-the-whole-value arm)
        _ => Shape { is_enum: true, variants: [(SKind::Tuple, 1), (SKind::Unit, 0), (SKind::Named, 1), (SKind::Tuple, 2), (SKind::Unit, 0), (SKind::Tuple, 1), (SKind::Named, 2), (SKind::Unit, 0), (SKind::Tuple, 1), (SKind::Tuple, 1)].iter().map(|&(kind, n)| VShape { kind, n }).collect() },
    };
    let generic = ch.flag();
    let with_copy = ch.flag();
    let raw = ch.flag();
    let bound = ch.pick(4);
    let special = ch.pick(8);
    let entry = *ch.of(&Entry::BOTH);
    if wide != 0 && (raw || bound != 0 || special != 0) {
        return None;
    }
    if special >= 6 && !(generic && !with_copy && !raw && bound == 0 && wide == 0 && shape.total_fields() > 0 && shape.variants.len() <= 2) {
        return None;
    }
    if special != 0 && special < 6 && (generic || with_copy || raw || bound != 0 || shape.total_fields() == 0 || entry == Entry::Derive && shape.variants.len() > 1) {
        return None;
    }
    if raw && (generic || with_copy || entry == Entry::Derive || !shape.variants.iter().any(|v| v.kind == SKind::Named && v.n > 0)) {
        return None;
    }
    if bound != 0 && (!generic || raw || entry == Entry::Derive || shape.variants.len() > 2 || shape.variants[0].n == 0) {
        return None;
    }
    if bound == 3 && !(shape.is_enum && shape.variants.len() == 2 && shape.variants[1].n >= 1) {
        return None;
    }
    if with_copy && (generic || (entry == Entry::Derive && shape.variants.len() > 1)) {
        return None;
    }
    if generic && shape.total_fields() == 0 {
        return None;
    }
    if !thorough && entry == Entry::Derive && shape.variants.len() > 2 && wide == 0 {
        return None;
    }
    if thorough && shape.variants.len() == 4 && (generic || entry == Entry::Derive) {
        return None;
    }
    Some(Case { vector: ch.vector(), shape, generic, with_copy, raw, bound, special, entry })
}

fn field_ty(c: &Case, _vi: usize, fi: usize) -> String {
    if c.bound == 3 && _vi == 0 {
        "Rec".into()
    } else if c.special == 1 {
        "RecI".into()
    } else if c.special == 2 {
        "(Rec, u8)".into()
    } else if c.with_copy {
        "RecC".into()
    } else if !c.generic {
        "Rec".into()
    } else if fi % 2 == 0 {
        if c.special == 7 { "T::Out".into() } else { "T".into() }
    } else {
        "RecG<T>".into()
    }
}
fn field_val(c: &Case, vi: usize, fi: usize, id: u32) -> String {
    if c.bound == 3 && vi == 0 {
        format!("Rec({id})")
    } else if c.special == 1 {
        format!("RecI({id})")
    } else if c.special == 2 {
        format!("(Rec({id}), 7u8)")
    } else if c.with_copy {
        format!("RecC({id})")
    } else if !c.generic || fi % 2 == 0 {
        format!("Rec({id})")
    } else {
        format!("RecG({id}, ::core::marker::PhantomData)")
    }
}

fn ids(base: u32, vi: usize, n: usize) -> Vec<u32> {
    (0..n).map(|fi| base + (vi as u32) * 20 + fi as u32 + 1).collect()
}

fn build(c: &Case, tier: &str) -> XCase {
    set_raw_field_names(c.raw);
    let r = build_inner(c, tier);
    set_raw_field_names(false);
    r
}

fn build_inner(c: &Case, tier: &str) -> XCase {
    let sh = &c.shape;
    let ty = |vi: usize, fi: usize| field_ty(c, vi, fi);
    let noattrs = |vi: usize, fi: usize| if c.bound == 2 && vi == 0 && fi == 0 { vec!["#[derive_ex(Clone(bound(T: ::core::clone::Clone)))]".to_string()] } else { Vec::new() };
    let mut item = sh.item(if c.special == 7 { "<T: Src>" } else if c.special == 6 { "<const K: usize, T>" } else if c.generic { "<T>" } else { "" }, &ty, &noattrs);
    if c.bound == 3 {
        if let Body::Enum(vs) = &mut item.body {
            vs[0].attrs.push("#[derive_ex(Clone(bound()))]".into());
        }
    }
    let list = if c.with_copy { "Copy, Clone" } else if c.bound == 1 { "Clone(bound(T: ::core::clone::Clone))" } else { "Clone" };
    let head = match c.entry {
        Entry::Attr => format!("#[derive_ex({list})]"),
        Entry::Derive => format!("#[derive(Ex)]\n#[derive_ex({list})]"),
    };
    let selfty = if c.special == 6 { "X<3, Rec>" } else if c.generic { "X<Rec>" } else { "X" };
    let mut s = String::new();
    s.push_str("use derive_ex::{derive_ex, Ex};\nuse dxrt::{Rec, RecC, RecG, RecI, take_log, take_log_str};\n");
    if c.special == 7 {
        s.push_str("pub trait Src { type Out; }\nimpl Src for Rec { type Out = Rec; }\n");
    }
    if c.special == 4 || c.special == 5 {
        s.push_str(&format!("macro_rules! mk_item {{ ($t:{}) => {{\n{head}\n{}\n}} }}\nmk_item!(Rec);\ntype S = {selfty};\n", if c.special == 4 { "ty" } else { "ident" }, crate::c10::replace_word(&item.print(), "Rec", "$t")));
    } else {
        s.push_str(&format!("{head}\n{}{}\ntype S = {selfty};\n", if c.special == 3 { "#[repr(C)]\n" } else { "" }, item.print()));
    }
    // view
    s.push_str("fn view(x: &S) -> String {\n    match x {\n");
    for vi in 0..sh.variants.len() {
        let n = sh.variants[vi].n;
        let binders: Vec<String> = (0..n).map(|i| format!("b{i}")).collect();
        let pat = sh.ctor(vi, &binders);
        let parts: Vec<String> = (0..n).map(|i| if c.special == 2 { format!("(b{i}.0).0.to_string()") } else { format!("b{i}.0.to_string()") }).collect();
        s.push_str(&format!("        {pat} => format!(\"{}[{{}}]\", [{}].join(\",\")),\n", sh.vname(vi), if parts.is_empty() { "String::new()".to_string() } else { parts.join(", ") }));
    }
    s.push_str("    }\n}\n");
    // constructors
    s.push_str("fn mk(v: usize, base: u32) -> S {\n    match v {\n");
    for vi in 0..sh.variants.len() {
        let n = sh.variants[vi].n;
        let args: Vec<String> = (0..n).map(|fi| field_val(c, vi, fi, 0).replace("(0", &format!("(base + {}", vi * 20 + fi + 1))).collect();
        s.push_str(&format!("        {vi} => {},\n", sh.ctor(vi, &args)));
    }
    s.push_str("        _ => unreachable!(),\n    }\n}\n");
    let nv = sh.variants.len();
    s.push_str(&format!("pub fn run() -> String {{\n    let mut out = String::new();\n    for va in 0..{nv} {{\n        let a = mk(va, 0);\n        take_log();\n        let c = a.clone();\n        out.push_str(&format!(\"clone {{}}:{{}}|{{}}|{{}};\", va, take_log_str(), view(&c), view(&a)));\n    }}\n    for va in 0..{nv} {{ for vb in 0..{nv} {{\n        let mut a = mk(va, 0);\n        let b = mk(vb, 1000);\n        take_log();\n        a.clone_from(&b);\n        out.push_str(&format!(\"clone_from {{}}<-{{}}:{{}}|{{}}|{{}};\", va, vb, take_log_str(), view(&a), view(&b)));\n    }} }}\n    out\n}}\n"));
    // reference
    let viewr = |vi: usize, base: u32| format!("{}[{}]", sh.vname(vi), ids(base, vi, sh.variants[vi].n).iter().map(|i| i.to_string()).collect::<Vec<_>>().join(","));
    let mut exp = String::new();
    for va in 0..nv {
        let log: Vec<String> = ids(0, va, sh.variants[va].n).iter().map(|i| format!("clone({i})")).collect();
        exp.push_str(&format!("clone {}:{}|{}|{};", va, log.join(","), viewr(va, 0), viewr(va, 0)));
    }
    for va in 0..nv {
        for vb in 0..nv {
            let log: Vec<String> = if va == vb && c.special != 2 { ids(0, va, sh.variants[va].n).iter().zip(ids(1000, vb, sh.variants[vb].n)).map(|(a, b)| format!("clone_from({a}<-{b})")).collect() } else { ids(1000, vb, sh.variants[vb].n).iter().map(|i| format!("clone({i})")).collect() };
            exp.push_str(&format!("clone_from {}<-{}:{}|{}|{};", va, vb, log.join(","), viewr(vb, 1000), viewr(vb, 1000)));
        }
    }
    let mut atoms = BTreeSet::new();
    atoms.insert(format!("entry={}", c.entry.name()));
    atoms.insert(format!("kind={}", if sh.is_enum { "enum" } else { "struct" }));
    atoms.insert(format!("generic={}", c.generic));
    atoms.insert(format!("with_copy={}", c.with_copy));
    atoms.insert(format!("raw={}", c.raw));
    atoms.insert(format!("bound={}", c.bound));
    atoms.insert(format!("special={}", c.special));
    atoms.insert(format!("nvariants={}", nv));
    XCase {
        text: format!("{} {} {}{}", c.entry.name(), list, match c.special { 3 => "#[repr(C)] ", 4 => "[out of a macro_rules! macro, Rec as a ty fragment] ", 5 => "[out of a macro_rules! macro, Rec as an ident fragment] ", _ => "" }, item.print()),
        code: s,
        expected: exp,
        atoms,
        nontrivial: sh.total_fields() >= 1,
        detail: json!({"vector": c.vector, "tier": tier, "entry": c.entry.name(), "item": item.print()}),
        what: format!("derive_ex({}) via {} on {}{}", list, c.entry.name(), sh.describe(), if c.generic { " generic" } else { "" }),
        inner: (nv + nv * nv) as u64,
        symptom: "clone-trace-or-result-differs".into(),
        must_compile: true,
    }
}

pub fn run(ctx: &Ctx, rep: &mut Report) {
    let thorough = ctx.tier.is_thorough();
    rep.rule = "terminal state = (struct/enum shape from Sh(n_v, n_f), concrete or generic field types [Rec, RecC + Copy, T / RecG<T>, RecI with inherent methods named clone / clone_from, tuple-typed (Rec, u8)], #[repr(C)] or not, raw field names or not, explicit bound or not, entry point); inner enumeration = clone of every variant and clone_from for ALL ordered pairs of variants (fields carry unique identities, calls are logged); distinct by program text; non-trivial = at least one field".into();
    rep.assumptions = vec!["reference: clone = one Clone::clone per field in declaration order; clone_from on the same variant / struct = one clone_from per field and no clone, otherwise the trace of source.clone(); afterwards target views equal to the source, source untouched".into()];
    let mut cases = Vec::new();
    if let Some(p) = &ctx.replay {
        let v: serde_json::Value = serde_json::from_str(&std::fs::read_to_string(p).expect("replay file")).expect("replay json");
        let vec: Vec<usize> = v["case"]["vector"].as_array().unwrap().iter().map(|x| x.as_u64().unwrap() as usize).collect();
        let th = v["case"]["tier"] == "thorough";
        cases.push(replay(|ch| gen(ch, th), &vec).unwrap_or_else(|| crate::report::machinery("replayed vector is pruned")));
    } else {
        let st = explore(|ch| gen(ch, thorough), |_, c| cases.push(c));
        rep.stats.add(&st);
    }
    let mut x: Vec<XCase> = cases.iter().map(|c| build(c, ctx.tier.name())).collect();
    if ctx.replay.is_none() {
        // enums without variants have no value to clone, but the impl must compile
        for (list, item) in [("Clone", "pub enum X {}"), ("Copy, Clone", "pub enum X {}"), ("Clone", "pub enum X<T> where T: Copy {}")] {
            for entry in Entry::BOTH {
                let head = match entry {
                    Entry::Attr => format!("#[derive_ex({list})]"),
                    Entry::Derive => format!("#[derive(Ex)]\n#[derive_ex({list})]"),
                };
                let generic = item.contains("<T>");
                let code = format!("use derive_ex::{{derive_ex, Ex}};\n{head}\n{}\npub fn run() -> String {{ String::from(\"compiles\") }}\n", if generic { item.replace("<T> where T: Copy {}", "<T> where T: Copy { #[doc(hidden)] __Never(::core::convert::Infallible, ::core::marker::PhantomData<T>) }") } else { item.to_string() });
                let mut atoms = BTreeSet::new();
                atoms.insert(format!("entry={}", entry.name()));
                atoms.insert("kind=empty-enum".to_string());
                x.push(XCase { text: format!("{} {} {}", entry.name(), list, item), code, expected: "compiles".into(), atoms, nontrivial: true, detail: json!({"kind": "empty-enum", "entry": entry.name(), "item": item}), what: format!("derive_ex({list}) via {} on `{item}`", entry.name()), inner: 1, symptom: "clone-trace-or-result-differs".into(), must_compile: true });
            }
        }
    }
    run_and_compare(rep, "c07", &x);
}
