//! Reference models written from doc/derive_ex.md and the property statements
//! (DESIGN.md section 4).  Nothing here looks at the implementation.

use std::collections::BTreeSet;

#[derive(Clone, Copy, PartialEq, Eq, Hash, Debug, PartialOrd, Ord)]
pub enum Tr {
    Ord,
    PartialOrd,
    Eq,
    PartialEq,
    Hash,
}
pub use Tr::*;

impl Tr {
    pub const ALL: [Tr; 5] = [Ord, PartialOrd, Eq, PartialEq, Hash];
    pub fn name(self) -> &'static str {
        match self {
            Ord => "Ord",
            PartialOrd => "PartialOrd",
            Eq => "Eq",
            PartialEq => "PartialEq",
            Hash => "Hash",
        }
    }
    /// name of the helper attribute called after this trait
    pub fn attr(self) -> &'static str {
        match self {
            Ord => "ord",
            PartialOrd => "partial_ord",
            Eq => "eq",
            PartialEq => "partial_eq",
            Hash => "hash",
        }
    }
    pub fn idx(self) -> usize {
        self as usize
    }
    pub fn from_name(s: &str) -> Option<Tr> {
        Tr::ALL.iter().copied().find(|t| t.name() == s)
    }
}

/// Doc table "which helper attributes affect which trait"; (partial_eq, Eq) is the
/// unspecified cell of interpretation I1 and is answered `false` here (generators never
/// produce inputs on which the answer matters).
pub fn affects(attr: Tr, target: Tr) -> bool {
    matches!(
        (attr, target),
        (Ord, _) | (PartialOrd, PartialOrd) | (PartialOrd, PartialEq) | (Eq, Eq) | (Eq, PartialEq) | (Eq, Hash) | (PartialEq, PartialEq) | (Hash, Hash)
    )
}

/// Helper attributes consulted for `target`, most specific first.
pub fn precedence(target: Tr) -> &'static [Tr] {
    match target {
        PartialEq => &[PartialEq, Eq, PartialOrd, Ord],
        Eq => &[Eq, Ord],
        PartialOrd => &[PartialOrd, Ord],
        Ord => &[Ord],
        Hash => &[Hash, Eq, Ord],
    }
}

/// An attribute name is a helper attribute of the current derivation iff it affects at
/// least one derived trait.
pub fn recognised(attr: Tr, derived: &[Tr]) -> bool {
    derived.iter().any(|&t| affects(attr, t))
}

#[derive(Clone, Copy, PartialEq, Eq, Hash, Debug, PartialOrd, Ord)]
pub enum Arg {
    None,
    Ignore,
    Key,
    By,
    Reverse,
    ReverseKey,
    ReverseBy,
}
impl Arg {
    pub const ORD7: [Arg; 7] = [Arg::None, Arg::Ignore, Arg::Reverse, Arg::Key, Arg::By, Arg::ReverseKey, Arg::ReverseBy];
    pub const EQ4: [Arg; 4] = [Arg::None, Arg::Ignore, Arg::Key, Arg::By];
    pub fn ignore(self) -> bool {
        self == Arg::Ignore
    }
    pub fn reverse(self) -> bool {
        matches!(self, Arg::Reverse | Arg::ReverseKey | Arg::ReverseBy)
    }
    pub fn key(self) -> bool {
        matches!(self, Arg::Key | Arg::ReverseKey)
    }
    pub fn by(self) -> bool {
        matches!(self, Arg::By | Arg::ReverseBy)
    }
    pub fn custom(self) -> bool {
        self.key() || self.by()
    }
    pub fn short(self) -> &'static str {
        match self {
            Arg::None => "-",
            Arg::Ignore => "ignore",
            Arg::Key => "key",
            Arg::By => "by",
            Arg::Reverse => "reverse",
            Arg::ReverseKey => "reverse+key",
            Arg::ReverseBy => "reverse+by",
        }
    }
}

/// One field's comparison helper attributes, indexed by `Tr::idx()` of the attribute.
#[derive(Clone, Copy, PartialEq, Eq, Hash, Debug, PartialOrd, Ord)]
pub struct Combo(pub [Arg; 5]);

impl Combo {
    pub const PLAIN: Combo = Combo([Arg::None; 5]);
    pub fn get(&self, attr: Tr) -> Arg {
        self.0[attr.idx()]
    }
    pub fn with(mut self, attr: Tr, a: Arg) -> Combo {
        self.0[attr.idx()] = a;
        self
    }
    pub fn is_plain(&self) -> bool {
        self.0.iter().all(|a| *a == Arg::None)
    }
    pub fn n_set(&self) -> usize {
        self.0.iter().filter(|a| **a != Arg::None).count()
    }
    /// all 7*7*4*4*4 = 3136 combinations, simplest first
    pub fn all() -> Vec<Combo> {
        let mut v = Vec::new();
        for &o in &Arg::ORD7 {
            for &po in &Arg::ORD7 {
                for &e in &Arg::EQ4 {
                    for &pe in &Arg::EQ4 {
                        for &h in &Arg::EQ4 {
                            v.push(Combo([o, po, e, pe, h]));
                        }
                    }
                }
            }
        }
        v.sort_by_key(|c| (c.n_set(), c.0));
        v
    }
    pub fn describe(&self) -> String {
        let mut s = Vec::new();
        for t in Tr::ALL {
            if self.get(t) != Arg::None {
                s.push(format!("{}({})", t.attr(), self.get(t).short()));
            }
        }
        if s.is_empty() {
            "plain".into()
        } else {
            s.join(" ")
        }
    }
    /// restrict to the attributes recognised under `derived` (others are not helper
    /// attributes of this derivation)
    pub fn restrict(&self, derived: &[Tr]) -> Combo {
        let mut c = *self;
        for t in Tr::ALL {
            if !recognised(t, derived) {
                c.0[t.idx()] = Arg::None;
            }
        }
        c
    }
    pub fn uses_only_recognised(&self, derived: &[Tr]) -> bool {
        self.restrict(derived) == *self
    }
}

/// How the reference says `target` treats a field carrying `combo`.
#[derive(Clone, Copy, PartialEq, Eq, Debug)]
pub enum Sel {
    /// field does not take part
    Ignored,
    /// the field's own trait impl
    Default,
    /// `key = ..` taken from this attribute
    Key(Tr),
    /// `by = ..` taken from this attribute
    By(Tr),
}

/// Is a `by` of attribute `attr` usable for `target`?  (`hash(by)` only changes Hash;
/// Hash takes `by` only from `hash`.)
fn by_applicable(attr: Tr, target: Tr) -> bool {
    if target == Hash {
        attr == Hash
    } else {
        attr != Hash
    }
}

/// Selection per documented precedence; assumes `combo` only carries recognised attributes.
pub fn select(combo: &Combo, target: Tr) -> Sel {
    for &a in precedence(target) {
        if combo.get(a).ignore() {
            return Sel::Ignored;
        }
    }
    for &a in precedence(target) {
        let arg = combo.get(a);
        if arg.by() && by_applicable(a, target) {
            return Sel::By(a);
        }
        if arg.key() {
            return Sel::Key(a);
        }
        // an Eq-only `by` is not usable for Hash: keep looking for a key further down
    }
    Sel::Default
}

/// I2: reversed iff any affecting attribute carries `reverse`.
pub fn reversed(combo: &Combo, target: Tr) -> bool {
    matches!(target, Ord | PartialOrd) && precedence(target).iter().any(|&a| combo.get(a).reverse())
}

/// C05 reference: does deriving `target` on a field with `combo` have to be accepted?
/// `derived` must be supertrait-closed or {Hash} (see DESIGN C05) and `combo` recognised.
pub fn ref_accept(combo: &Combo, target: Tr) -> bool {
    // R2: ignore
    if select(combo, target) == Sel::Ignored {
        return true;
    }
    let four = [PartialEq, Eq, PartialOrd, Ord];
    if target != Hash {
        if four.iter().any(|&a| combo.get(a).ignore()) {
            return false; // some trait of the four skips the field, this one does not
        }
    } else if combo.get(PartialEq).ignore() || combo.get(PartialOrd).ignore() {
        return false; // PartialEq skips, Hash does not (I3)
    }
    // R3
    if target == Ord && combo.get(PartialOrd).reverse() {
        return false;
    }
    // R1
    match select(combo, target) {
        Sel::Key(_) | Sel::By(_) => true,
        Sel::Default => !Tr::ALL.iter().any(|&a| combo.get(a).custom()),
        Sel::Ignored => true,
    }
}

/// The 11 supertrait-closed subsets (plus {Hash}) over which C02 / C05 quantify.
pub fn closed_subsets() -> Vec<Vec<Tr>> {
    let bases: Vec<Vec<Tr>> = vec![vec![PartialEq], vec![PartialEq, Eq], vec![PartialEq, PartialOrd], vec![PartialEq, Eq, PartialOrd], vec![PartialEq, Eq, PartialOrd, Ord]];
    let mut v = Vec::new();
    for b in &bases {
        v.push(b.clone());
    }
    for b in &bases {
        let mut x = b.clone();
        x.push(Hash);
        v.push(x);
    }
    v.push(vec![Hash]);
    v
}

pub fn names(ts: &[Tr]) -> Vec<String> {
    ts.iter().map(|t| t.name().to_string()).collect()
}

pub fn set_of(xs: &[&str]) -> BTreeSet<String> {
    xs.iter().map(|s| s.to_string()).collect()
}
