//! Pipeline conformance (DESIGN.md 1.4): binds channel E (the repository's entry functions
//! called in-process through proc-macro2's fallback) to what a user gets through rustc and
//! the real proc-macro dylib.  For every given input the item is compiled by real rustc with
//! a shared `dump` argument; each `error: dump:\n<tokens>` diagnostic is re-lexed and the
//! multiset of dumped impls must equal, token for token, the impls the in-process expansion
//! produces WITHOUT `dump`.

use crate::expand::{self, flat_str, lex, Entry, OutItem};
use crate::report::{machinery, Report};
use crate::runner;
use serde_json::json;

pub struct Input {
    pub entry: Entry,
    pub attr: String,
    pub item: String,
}

/// Returns the number of inputs validated, or a description of the first disagreement.
pub fn validate(rep: &mut Report, label: &str, inputs: &[Input]) -> Result<u64, String> {
    // in-process side
    let mut want: Vec<Option<Vec<String>>> = Vec::new();
    for i in inputs {
        let r = expand::expand(i.entry, &i.attr, &i.item).and_then(|ts| expand::parse_output(ts, i.entry == Entry::Attr));
        let w = match r {
            Ok(items) => {
                let traits = crate::seeds::traits_of_attr(&i.attr);
                match expand::align(&items, &traits) {
                    Ok(expand::Aligned::PerTrait(slots)) => {
                        let mut v: Vec<String> = slots.iter().filter(|s| !s.is_error()).map(|s| s.flat()).collect();
                        v.sort();
                        let _ = OutItem::Error(String::new());
                        Some(v)
                    }
                    _ => None,
                }
            }
            Err(_) => None,
        };
        want.push(w);
    }
    let idx: Vec<usize> = (0..inputs.len()).filter(|&k| want[k].as_ref().map(|v| !v.is_empty()).unwrap_or(false)).collect();
    let progs: Vec<runner::Case> = idx
        .iter()
        .map(|&k| {
            let i = &inputs[k];
            let head = match i.entry {
                Entry::Attr => format!("#[derive_ex::derive_ex({}, dump)]", i.attr),
                Entry::Derive => format!("#[derive(derive_ex::Ex)]\n#[derive_ex({}, dump)]", i.attr),
            };
            runner::Case { code: format!("{head}\n{}", i.item) }
        })
        .collect();
    let mut o = runner::Opts::check(label);
    o.per_file = 1_000_000; // every case fails by construction: no point in iterating, one file per thread
    o.per_file = (progs.len() / crate::explore::threads().max(1)).max(20);
    let res = run_once(&progs, &o);
    let mut n = 0u64;
    for (j, &k) in idx.iter().enumerate() {
        let mut got: Vec<String> = Vec::new();
        for d in &res[j] {
            if let Some(rest) = d.strip_prefix("dump:\n") {
                match lex(rest) {
                    Ok(ts) => got.push(flat_str(ts)),
                    Err(e) => return Err(format!("dumped text of `{}` does not lex: {e}", inputs[k].item)),
                }
            }
        }
        got.sort();
        let w = want[k].as_ref().unwrap();
        if &got != w {
            return Err(format!("pipeline conformance ({label}): the real proc-macro pipeline and the in-process expansion disagree on #[derive_ex({})] {} via {}: rustc dumped {} impl group(s), in-process produced {}; first difference: {:?} vs {:?}", inputs[k].attr, inputs[k].item, inputs[k].entry.name(), got.len(), w.len(), got.iter().zip(w.iter()).find(|(a, b)| a != b).map(|(a, _)| a.chars().take(200).collect::<String>()), got.iter().zip(w.iter()).find(|(a, b)| a != b).map(|(_, b)| b.chars().take(200).collect::<String>())));
        }
        n += 1;
    }
    rep.validated += n;
    rep.set("pipeline_conformance", json!({"inputs_compiled_by_real_rustc_with_dump_and_compared_token_for_token": n, "inputs_skipped_because_expansion_is_an_error_or_not_per_trait": inputs.len() as u64 - n}));
    Ok(n)
}

/// A disagreement is a machinery failure unless the check has already decided on a violation
/// (a broken property can legitimately break the `dump` round trip as well).
pub fn validate_or_die(rep: &mut Report, label: &str, inputs: &[Input]) {
    if rep.n_violations() > 0 {
        rep.set("pipeline_conformance", json!("skipped: the run already reports violations"));
        return;
    }
    if let Err(e) = validate(rep, label, inputs) {
        machinery(&e);
    }
}

/// Compile every case once (all of them are expected to fail with `dump` errors) and return
/// the error messages attributed to each case.
fn run_once(cases: &[runner::Case], opts: &runner::Opts) -> Vec<Vec<String>> {
    runner::diagnostics_once(cases, opts)
}
