//! C18 — Deref / DerefMut target the single field itself (channel X; channel E for rejection).

use crate::expand::{self, Aligned, Entry};
use crate::explore::{explore, replay, Ch};
use crate::report::{Report, Violation};
use crate::xrun::{run_and_compare, XCase};
use crate::Ctx;
use serde_json::json;
use std::collections::BTreeSet;

/// (generics, where, field type, concrete Self type, concrete field type, constructor value,
///  mutation through deref_mut (binding `d`), check on the field afterwards,
///  direct mutation of the field, check through deref (binding `r`))
const ROWS: [(&str, &str, &str, &str, &str, &str, &str, &str, &str, &str); 15] = [
    ("", "", "u8", "X", "u8", "5u8", "*d = 9;", "x.F == 9", "x.F = 3;", "*r == 3"),
    ("", "", "String", "X", "String", "String::from(\"a\")", "d.push('z');", "x.F == \"az\"", "x.F.push('q');", "r.as_str() == \"azq\""),
    ("", "", "Box<[u8]>", "X", "Box<[u8]>", "vec![1u8, 2].into_boxed_slice()", "d[0] = 7;", "x.F[0] == 7", "x.F[1] = 8;", "r[1] == 8"),
    ("<T>", "", "Vec<T>", "X<u8>", "Vec<u8>", "vec![1u8]", "d.push(2);", "x.F == vec![1, 2]", "x.F.push(3);", "r.len() == 3"),
    ("<T>", "", "T", "X<u8>", "u8", "5u8", "*d = 9;", "x.F == 9", "x.F = 3;", "*r == 3"),
    ("<'a, T>", "", "&'a T", "X<'static, u8>", "&'static u8", "&5u8", "*d = &9u8;", "*x.F == 9", "x.F = &3u8;", "**r == 3"),
    ("<T = u8>", "", "T", "X", "u8", "5u8", "*d = 9;", "x.F == 9", "x.F = 3;", "*r == 3"),
    ("<T: Clone>", "where T: Default", "Box<T>", "X<u8>", "Box<u8>", "Box::new(5u8)", "**d = 9;", "*x.F == 9", "*x.F = 3;", "**r == 3"),
    ("<const N: usize = 2>", "", "[u8; N]", "X", "[u8; 2]", "[1u8, 2]", "d[0] = 7;", "x.F[0] == 7", "x.F[1] = 8;", "r[1] == 8"),
    ("<T: ?Sized>", "", "Box<T>", "X<[u8]>", "Box<[u8]>", "vec![1u8, 2].into_boxed_slice()", "d[0] = 7;", "x.F[0] == 7", "x.F[1] = 8;", "r[1] == 8"),
    ("<T, U: Copy>", "where U: Default", "(T, U)", "X<u8, i8>", "(u8, i8)", "(1u8, 2i8)", "d.0 = 7;", "x.F.0 == 7", "x.F.1 = 8;", "r.1 == 8"),
    // a const parameter declared BEFORE a type parameter, and between a lifetime and a type
    ("<const N: usize, T>", "", "[T; N]", "X<2, u8>", "[u8; 2]", "[1u8, 2]", "d[0] = 7;", "x.F[0] == 7", "x.F[1] = 8;", "r[1] == 8"),
    // a declared higher-ranked where-predicate
    ("<T>", "where for<'x> &'x T: IntoIterator<Item = &'x u8>", "T", "X<Vec<u8>>", "Vec<u8>", "vec![1u8]", "d.push(2);", "x.F == vec![1, 2]", "x.F.push(3);", "r.len() == 3"),
    // a declared where-predicate whose LEFT side is concrete and whose bound mentions the parameter
    ("<T>", "where u8: Into<T>", "Vec<T>", "X<u16>", "Vec<u16>", "vec![1u16]", "d.push(2);", "x.F == vec![1, 2]", "x.F.push(3);", "r.len() == 3"),
    ("<'a, const N: usize, T: Copy>", "where T: Default", "&'a [T; N]", "X<'static, 2, u8>", "&'static [u8; 2]", "&[1u8, 2]", "*d = &[7u8, 2];", "x.F[0] == 7", "x.F = &[7u8, 8];", "r[1] == 8"),
];

#[derive(Clone, Debug)]
struct Case {
    vector: Vec<usize>,
    row: usize,
    named: bool,
    /// 0 = Deref + DerefMut, 1 = Deref alone, 2 = DerefMut with a hand-written Deref,
    /// 3 = Deref + DerefMut with an explicit shared `bound(T: Copy)` (the declared where-clause must survive)
    list: usize,
    /// the named field is a raw identifier
    raw: bool,
    /// a sibling module named `core` is in scope
    core_mod: bool,
    entry: Entry,
    /// the definition comes out of a macro_rules! macro, the field type (a plain identifier) as an `ident` fragment
    via_macro: bool,
}

fn gen(ch: &mut Ch, _thorough: bool) -> Option<Case> {
    let row = ch.pick(ROWS.len());
    let named = ch.flag();
    // 4 = `#[derive_ex(Deref)] #[derive_ex(DerefMut)]` stacked, 5 = the same with the crate-qualified attribute path
    // 6 = per-trait bounds that stop (`T: Clone`) next to a shared bound the instantiation need not satisfy (`T: Copy`)
    // 7 = a higher-ranked predicate in the shared bound, 8 = a lifetime predicate in the shared bound
    let list = ch.pick(9);
    // (every generated case module now sits next to sibling modules named core / std / alloc, see runner.rs)
    let core_mod = false;
    let raw = ch.flag();
    let entry = *ch.of(&Entry::BOTH);
    if raw && !named {
        return None;
    }
    if core_mod && (raw || list == 3 || entry == Entry::Derive && named) {
        return None;
    }
    if list == 5 && entry == Entry::Derive {
        return None;
    }
    if list == 3 && (!ROWS[row].0.contains('T') || ROWS[row].0.contains("?Sized") || ROWS[row].3.contains("Vec<")) {
        return None;
    }
    if list == 6 && (!ROWS[row].0.contains('T') || ROWS[row].0.contains("?Sized")) {
        return None;
    }
    if list == 7 && !ROWS[row].0.contains('T') {
        return None;
    }
    if list == 8 && !ROWS[row].0.contains("'a") {
        return None;
    }
    let via_macro = ch.flag();
    if via_macro && (!matches!(ROWS[row].2, "u8" | "String") || raw || list > 2) {
        return None;
    }
    Some(Case { vector: ch.vector(), row, named, list, raw, core_mod, entry, via_macro })
}

fn build(c: &Case, tier: &str) -> XCase {
    let (g, wh, fty, selfty, cfty, ctor, mut_d, chk_f, mut_f, chk_r) = ROWS[c.row];
    let f = if c.named { if c.raw { "r#type" } else { "inner" } } else { "0" };
    let list = ["Deref, DerefMut", "Deref", "DerefMut", "Deref, DerefMut, bound(T: ::core::marker::Copy)", "Deref)] #[derive_ex(DerefMut", "Deref)] #[::derive_ex::derive_ex(DerefMut", "Deref(bound(T: ::core::clone::Clone)), DerefMut(bound(T: ::core::clone::Clone)), bound(T: ::core::marker::Copy)", "Deref, DerefMut, bound(for<'x> &'x T: ::core::marker::Copy, ..)", "Deref, DerefMut, bound('a: 'a, ..)"][c.list];
    let head = match c.entry {
        Entry::Attr if c.list == 5 => format!("#[::derive_ex::derive_ex({list})]"),
        Entry::Attr => format!("#[derive_ex({list})]"),
        Entry::Derive => format!("#[derive(Ex)]\n#[derive_ex({list})]"),
    };
    let item = if c.named { format!("pub struct X{g} {wh} {{ pub {f}: {fty} }}") } else { format!("pub struct X{g}(pub {fty}) {wh};") };
    let rep = |s: &str| s.replace(".F", &format!(".{f}"));
    let mut s = String::new();
    s.push_str("use derive_ex::{derive_ex, Ex};\nuse ::core::ops::{Deref, DerefMut};\n");
    // a type that happens to be called like the const parameter of some rows
    s.push_str("#[allow(non_camel_case_types, dead_code)] pub type N = u16;\n");
    if c.core_mod {
        s.push_str("#[allow(unused)] pub mod core { pub mod ops {} }\n");
    }
    if c.via_macro {
        s.push_str(&format!("macro_rules! mk_def {{ ($t:ident) => {{ {head}\n{} }} }}\nmk_def!({fty});\n", crate::c10::replace_word(&item, fty, "$t")));
    } else {
        s.push_str(&format!("{head}\n{item}\n"));
    }
    if c.list == 2 {
        // hand-written Deref so that DerefMut alone is derivable
        let ig = g.replace(" = u8", "").replace(" = 2", "");
        let tg = {
            // type arguments: names of the parameters
            let names: Vec<String> = ig.trim_start_matches('<').trim_end_matches('>').split(',').filter(|p| !p.trim().is_empty()).map(|p| { let n = p.trim().trim_start_matches("const ").split(':').next().unwrap().trim().to_string(); if p.trim().starts_with("const ") { format!("{{ {n} }}") } else { n } }).collect();
            if names.is_empty() { String::new() } else { format!("<{}>", names.join(", ")) }
        };
        s.push_str(&format!("impl{ig} Deref for X{tg} {wh} {{ type Target = {fty}; fn deref(&self) -> &{fty} {{ &self.{f} }} }}\n"));
    }
    s.push_str("fn tid<D: Deref>(_: &D) -> ::core::any::TypeId where D::Target: 'static { ::core::any::TypeId::of::<D::Target>() }\n");
    s.push_str(&format!("type S = {selfty};\ntype F = {cfty};\n"));
    let ctor_x = if c.named { format!("X {{ {f}: {ctor} }}") } else { format!("X({ctor})") };
    s.push_str("pub fn run() -> String {\n    let mut out = String::new();\n");
    s.push_str(&format!("    let mut x: S = {ctor_x};\n"));
    s.push_str("    out.push_str(&format!(\"target-is-field-type:{};\", tid(&x) == ::core::any::TypeId::of::<F>()));\n");
    s.push_str(&format!("    out.push_str(&format!(\"same-address:{{}};\", ::core::ptr::eq(Deref::deref(&x) as *const _ as *const u8, &x.{f} as *const _ as *const u8)));\n"));
    if c.list != 1 {
        s.push_str(&format!("    {{ let d = DerefMut::deref_mut(&mut x); {mut_d} }}\n"));
        s.push_str(&format!("    out.push_str(&format!(\"write-through-deref_mut-lands-in-field:{{}};\", {}));\n", rep(chk_f)));
        s.push_str(&format!("    out.push_str(&format!(\"deref_mut-same-address:{{}};\", {{ let p = &x.{f} as *const _ as *const u8; ::core::ptr::eq(DerefMut::deref_mut(&mut x) as *mut _ as *const u8, p) }}));\n"));
    } else {
        s.push_str(&format!("    {{ let d = &mut x.{f}; {mut_d} }}\n"));
    }
    s.push_str(&format!("    {}\n", rep(mut_f)));
    s.push_str(&format!("    out.push_str(&format!(\"field-write-visible-through-deref:{{}};\", {{ let r = Deref::deref(&x); {chk_r} }}));\n"));
    s.push_str("    out\n}\n");
    let mut exp = String::from("target-is-field-type:true;same-address:true;");
    if c.list != 1 {
        exp.push_str("write-through-deref_mut-lands-in-field:true;deref_mut-same-address:true;");
    }
    exp.push_str("field-write-visible-through-deref:true;");
    let mut atoms = BTreeSet::new();
    atoms.insert(format!("entry={}", c.entry.name()));
    atoms.insert(format!("list={list}"));
    atoms.insert(format!("field_ty={fty}"));
    atoms.insert(format!("generics={g}"));
    atoms.insert(format!("sibling_mod_core={}", c.core_mod));
    atoms.insert(format!("via_macro={}", c.via_macro));
    XCase {
        text: format!("{} {} {}{}{}", c.entry.name(), list, item, if c.core_mod { " [next to `mod core`]" } else { "" }, if c.via_macro { " [generated by macro_rules!, field type as an ident fragment]" } else { "" }),
        code: s,
        expected: exp,
        atoms,
        nontrivial: true,
        detail: json!({"vector": c.vector, "tier": tier, "entry": c.entry.name(), "list": list, "item": item}),
        what: format!("derive_ex({list}) via {} on `{item}`", c.entry.name()),
        inner: 5,
        symptom: "deref-does-not-target-the-field".into(),
        must_compile: true,
    }
}

pub fn run(ctx: &Ctx, rep: &mut Report) {
    rep.rule = "terminal state = (one of 11 single-field struct definitions [field types u8, String, Box<[u8]>, Vec<T>, T, &'a T, Box<T> incl. T: ?Sized, [u8; N], (T, U); generics with inline bounds, defaults, const parameters, where-clauses], tuple or named, list in {Deref+DerefMut, Deref, DerefMut with a hand-written Deref}, entry point) plus every 0-, 2-, 3-, 4-field struct shape and enums for the rejection; distinct by program text; every case is non-trivial".into();
    rep.assumptions = vec!["oracle: Target's TypeId equals the field type's, deref / deref_mut return the field's own address, a write through deref_mut is visible in the field and a write to the field is visible through deref; other arities and enums must expand to compile_error! for every requested trait".into()];
    let mut cases = Vec::new();
    if let Some(p) = &ctx.replay {
        let v: serde_json::Value = serde_json::from_str(&std::fs::read_to_string(p).expect("replay file")).expect("replay json");
        let vec: Vec<usize> = v["case"]["vector"].as_array().map(|a| a.iter().map(|x| x.as_u64().unwrap() as usize).collect()).unwrap_or_default();
        if !vec.is_empty() {
            cases.push(replay(|ch| gen(ch, true), &vec).unwrap_or_else(|| crate::report::machinery("replayed vector is pruned")));
        }
    } else {
        let st = explore(|ch| gen(ch, ctx.tier.is_thorough()), |_, c| cases.push(c));
        rep.stats.add(&st);
    }
    // rejection half (channel E)
    let mut shapes: Vec<String> = vec!["struct X;".into(), "struct X();".into(), "struct X {}".into(), "enum X { A(u8) }".into(), "enum X { A }".into()];
    for n in 2..=4 {
        let tys: Vec<String> = (0..n).map(|i| ["u8", "String", "Vec<u8>", "u8"][i].to_string()).collect();
        shapes.push(format!("struct X({});", tys.join(", ")));
        shapes.push(format!("struct X {{ {} }}", tys.iter().enumerate().map(|(i, t)| format!("{}: {t}", crate::gen::fname(i))).collect::<Vec<_>>().join(", ")));
        shapes.push(format!("struct X<T>({});", (0..n).map(|_| "T").collect::<Vec<_>>().join(", ")));
    }
    for sh in &shapes {
        for list in ["Deref", "DerefMut", "Deref, DerefMut", "DerefMut, Deref"] {
            for entry in Entry::BOTH {
                if let Some(p) = &ctx.replay {
                    let v: serde_json::Value = serde_json::from_str(&std::fs::read_to_string(p).unwrap()).unwrap();
                    if v["case"]["item"].as_str() != Some(sh.as_str()) || v["case"]["list"].as_str() != Some(list) {
                        continue;
                    }
                }
                let traits: Vec<String> = list.split(", ").map(String::from).collect();
                rep.stats.states += 1;
                rep.stats.transitions += 1;
                rep.stats.terminals += 1;
                let r = expand::expand_aligned(entry, list, sh, &traits);
                let all_rejected = match &r {
                    Ok((_, Aligned::PerTrait(s))) => s.iter().all(|x| x.is_error()),
                    Ok((_, Aligned::Whole(_))) => true,
                    Err(_) => false,
                };
                rep.case(&format!("{} {} {}", entry.name(), list, sh), true);
                rep.outcome(if all_rejected { "wrong-arity:rejected" } else { "wrong-arity:accepted" });
                if !all_rejected {
                    let mut atoms = BTreeSet::new();
                    atoms.insert(format!("list={list}"));
                    atoms.insert(format!("entry={}", entry.name()));
                    rep.violation(Violation { symptom: "wrong-arity-accepted".into(), atoms, what: format!("derive_ex({list}) via {} on `{sh}` is not rejected for every requested trait", entry.name()), detail: json!({"entry": entry.name(), "list": list, "item": sh}), standalone: None });
                }
            }
        }
    }
    let mut x: Vec<XCase> = cases.iter().map(|c| build(c, ctx.tier.name())).collect();
    if ctx.replay.is_none() || x.is_empty() {
        let only = ctx.replay.as_ref().map(|p| serde_json::from_str::<serde_json::Value>(&std::fs::read_to_string(p).unwrap()).unwrap());
        for u in unsized_cases(ctx.tier.name()) {
            if let Some(v) = &only {
                if v["case"]["kind"] != "unsized-field" || v["case"]["item"] != u.detail["item"] || v["case"]["entry"] != u.detail["entry"] {
                    continue;
                }
            }
            x.push(u);
        }
    }
    if ctx.replay.is_none() {
        // single-field structs out of a macro_rules! macro whose field type holds a fragment that depends on grouping
        // (`[u8; $len * 2]`, `&'a $t` with `$t = dyn Fn() -> u8 + 'static`), and a per-trait bound on an EARLIER entry
        // of the list that the later entry must not inherit
        for (entry, ex) in [("attr", ""), ("derive", "#[derive(Ex)] ")] {
            let progs: [(&str, String, &str, &str); 3] = [
                ("field type [u8; $len * 2] out of a macro", format!("macro_rules! mk {{ ($n:ident, $len:expr) => {{ {ex}#[derive_ex(Deref, DerefMut)] pub struct $n(pub [u8; $len * 2]); }} }}\nmk!(X, 1 + 2);"), "{ fn tgt<D: ::core::ops::Deref<Target = [u8; 6]>>(_: &D) {} let mut x = X([0; 6]); tgt(&x); (*x)[5] = 7; format!(\"{};{}\", x.0[5], ::core::ptr::eq(&*x, &x.0)) }", "7;true"),
                ("field type &'a $t with $t = dyn Fn() -> u8 + 'static out of a macro", format!("macro_rules! mk {{ ($n:ident, $t:ty) => {{ {ex}#[derive_ex(Deref, DerefMut)] pub struct $n<'a>(pub &'a $t); }} }}\nmk!(X, dyn Fn() -> u8 + 'static);"), "{ let f = || 3u8; let x = X(&f); format!(\"{}\", (*x)()) }", "3"),
                ("DerefMut(bound(T: Copy)) listed BEFORE Deref", format!("{ex}#[derive_ex(DerefMut(bound(T: ::core::marker::Copy)), Deref)] pub struct X<T>(pub T);"), "{ let x = X(String::from(\"s\")); let mut y = X(5u8); *y = 6; format!(\"{};{};{}\", (*x).len(), y.0, dxrt::impls!(X<String>: ::core::ops::DerefMut)) }", "1;6;false"),
            ];
            for (what, defs, run, expected) in progs {
                let code = format!("use derive_ex::{{derive_ex, Ex}};\n{defs}\npub fn run() -> String {{ {run} }}\n");
                let mut atoms = BTreeSet::new();
                atoms.insert(format!("entry={entry}"));
                atoms.insert(format!("fixed={what}"));
                x.push(XCase { text: format!("{entry} {defs}"), code, expected: expected.to_string(), atoms, nontrivial: true, detail: json!({"kind": "fixed", "entry": entry, "what": what, "item": defs}), what: format!("derive_ex(Deref, DerefMut) via {entry}: {what}"), inner: 2, symptom: "deref-does-not-target-the-field".into(), must_compile: true });
            }
        }
    }
    run_and_compare(rep, "c18", &x);
}

/// Single-field structs whose field is itself unsized (trait objects with one or several bounds, slices, str, an
/// unsized parameter): values only exist behind a pointer, reached by the unsizing coercion from a sized instance.
fn unsized_cases(tier: &str) -> Vec<XCase> {
    let mut v = Vec::new();
    let items: [(&str, &str); 7] = [
        ("pub struct X(pub dyn Tr);", ""),
        ("pub struct X(pub dyn Tr + Send);", ""),
        ("pub struct X { pub inner: dyn Tr + Send + Sync }", ""),
        ("pub struct X<'a>(pub dyn Tr + 'a);", ""),
        ("pub struct X(pub [u8]);", ""),
        ("pub struct X { pub inner: str }", ""),
        // executed: Box<X<[u8]>> by unsizing from X<[u8; 2]>
        ("pub struct X<T: ?Sized>(pub T);", "let mut x: Box<X<[u8]>> = Box::new(X([1u8, 2])); { let d: &mut [u8] = &mut **x; d[0] = 7; } let a = &x.0 as *const [u8] as *const u8 as usize; let r: &[u8] = &**x; format!(\"{};{};{}\", r[0], r.len(), r.as_ptr() as usize == a)"),
    ];
    for (item, body) in items {
        for entry in Entry::BOTH {
            let head = match entry {
                Entry::Attr => "#[derive_ex(Deref, DerefMut)]".to_string(),
                Entry::Derive => "#[derive(Ex)]\n#[derive_ex(Deref, DerefMut)]".to_string(),
            };
            let (run, expected) = if body.is_empty() { ("String::from(\"compiles\")".to_string(), "compiles") } else { (body.to_string(), "7;2;true") };
            let code = format!("use derive_ex::{{derive_ex, Ex}};\npub trait Tr {{}}\n{head}\n{item}\npub fn run() -> String {{ {run} }}\n");
            let mut atoms = BTreeSet::new();
            atoms.insert(format!("entry={}", entry.name()));
            atoms.insert("field=unsized".to_string());
            v.push(XCase {
                text: format!("{} Deref, DerefMut {}", entry.name(), item),
                code,
                expected: expected.to_string(),
                atoms,
                nontrivial: true,
                detail: json!({"kind": "unsized-field", "tier": tier, "entry": entry.name(), "item": item}),
                what: format!("derive_ex(Deref, DerefMut) via {} on `{}`", entry.name(), item),
                inner: 1,
                symptom: "deref-does-not-reach-the-field".into(),
                must_compile: true,
            });
        }
    }
    v
}
