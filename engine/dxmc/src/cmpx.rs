//! Shared machinery of the comparison family on channel X (C01, C02, C06): type specs with
//! per-field comparison attributes, program generation, value enumeration, and the
//! reference interpreter `ref_*` (DESIGN.md 5/C01, C02, C06).

use crate::expand::{self, Aligned, Entry};
use crate::gen::*;
use crate::refmodel::*;
use std::cmp::Ordering;

#[derive(Clone, Copy, PartialEq, Eq, Debug, Hash, PartialOrd, Ord)]
pub enum FTy {
    V,
    U8,
    /// partially ordered: raw 3 is incomparable and unequal to itself
    Pv,
    /// Option<T>, T := V
    OptT,
    /// W<T>, T := V
    WT,
    /// bare T, T := V
    T,
    /// bare T declared `T: dxrt::Kt` (T := V): the only generic field type that can carry `key = ..` / `by = ..`
    Tk,
}
impl FTy {
    pub fn text(self) -> &'static str {
        match self {
            FTy::V => "V",
            FTy::U8 => "u8",
            FTy::Pv => "Pv",
            FTy::OptT => "Option<T>",
            FTy::WT => "W<T>",
            FTy::T | FTy::Tk => "T",
        }
    }
    pub fn generic(self) -> bool {
        matches!(self, FTy::OptT | FTy::WT | FTy::T | FTy::Tk)
    }
    pub fn total(self) -> bool {
        self != FTy::Pv
    }
    /// expression constructing the value from the loop variable `v` (a u8)
    pub fn ctor(self, v: &str) -> String {
        match self {
            FTy::V | FTy::T | FTy::Tk => format!("V({v})"),
            FTy::U8 => v.to_string(),
            FTy::Pv => format!("Pv({v})"),
            FTy::OptT => format!("(if {v} == 0 {{ None }} else {{ Some(V({v} - 1)) }})"),
            FTy::WT => format!("W(V({v}))"),
        }
    }
    pub fn pcmp(self, a: u8, b: u8) -> Option<Ordering> {
        if self == FTy::Pv && (a == 3 || b == 3) {
            None
        } else {
            Some(a.cmp(&b))
        }
    }
}

#[derive(Clone, Debug)]
pub struct FieldSpec {
    pub ty: FTy,
    pub dom: u8,
    pub combo: Combo,
    pub form: KeyForm,
    /// the key of this attribute is the identity `$` (it then shadows less specific keys with the field itself)
    pub identity: Option<Tr>,
}
impl FieldSpec {
    pub fn plain(ty: FTy, dom: u8) -> FieldSpec {
        FieldSpec { ty, dom, combo: Combo::PLAIN, form: KeyForm::Method, identity: None }
    }
    pub fn cfg(combo: Combo, form: KeyForm) -> FieldSpec {
        FieldSpec { ty: FTy::V, dom: 6, combo, form, identity: None }
    }
}

#[derive(Clone, Copy, PartialEq, Eq, Debug)]
pub enum VKind {
    Unit,
    Tuple,
    Named,
}

#[derive(Clone, Debug)]
pub struct VariantSpec {
    pub kind: VKind,
    pub fields: Vec<FieldSpec>,
}

#[derive(Clone, Debug)]
pub struct TypeSpec {
    pub is_enum: bool,
    /// a struct has exactly one entry
    pub variants: Vec<VariantSpec>,
    pub style: KeyStyle,
    /// extra shared argument of the derive_ex list (e.g. an explicit `bound(..)` without `..`)
    pub shared_arg: Option<&'static str>,
    /// enums with explicit discriminants (the documented order of variants is the declaration position, not the
    /// discriminant): 0 none, 1 all explicit in DECREASING order (`#[repr(u8)] enum X { A = 6, B = 4, .. }`),
    /// 2 every other variant explicit (`A = 1, B, C = 3, D`: an explicit value equals the POSITION of the next variant)
    pub discr: u8,
}

/// marker value of `TypeSpec::shared_arg`: every trait in its own stacked `#[derive_ex(..)]` attribute
pub const STACKED: &str = "@stacked";
/// like STACKED, every list after the first written `#[::derive_ex::derive_ex(..)]`
pub const STACKED_QUALIFIED: &str = "@stacked-qualified";
/// marker value of `TypeSpec::shared_arg`: the definition comes out of a `macro_rules!` macro and its helper
/// attributes (with their key / by expressions) arrive as `meta` fragments of the macro call
pub const VIA_MACRO: &str = "@macro";

pub const VNAMES: [&str; 5] = ["A", "B", "C", "D", "E"];

impl TypeSpec {
    pub fn generic(&self) -> bool {
        self.variants.iter().any(|v| v.fields.iter().any(|f| f.ty.generic()))
    }
    /// the generics as declared on the item and on hand-written impls
    pub fn decl_generics(&self) -> &'static str {
        if self.variants.iter().any(|v| v.fields.iter().any(|f| f.ty == FTy::Tk)) {
            "<T: dxrt::Kt>"
        } else if self.generic() {
            "<T>"
        } else {
            ""
        }
    }
    pub fn item(&self) -> ItemDef {
        let g = self.decl_generics();
        let fields_of = |v: &VariantSpec| -> FieldsDef {
            let fs: Vec<FieldDef> = v.fields.iter().enumerate().map(|(i, f)| {
                let mut attrs = combo_attrs_id(&f.combo, self.style, f.form, f.identity);
                // helper attributes need not be adjacent: on every other field foreign attributes sit between and around them
                if i % 2 == 0 && attrs.len() >= 2 {
                    let mut spaced = vec!["#[doc = \" d\"]".to_string()];
                    for a in attrs {
                        spaced.push(a);
                        spaced.push("#[allow(unused)]".to_string());
                    }
                    attrs = spaced;
                }
                FieldDef::tuple(f.ty.text()).attrs(&attrs)
            }).collect();
            match v.kind {
                VKind::Unit => FieldsDef::Unit,
                VKind::Tuple => FieldsDef::of(false, fs),
                VKind::Named => FieldsDef::of(true, fs),
            }
        };
        if self.is_enum {
            let n = self.variants.len();
            let mut it = ItemDef::enm("X", g, self.variants.iter().enumerate().map(|(i, v)| {
                let mut vd = VariantDef::new(VNAMES[i], fields_of(v));
                if self.discr == 1 {
                    vd.discr = Some(format!("{}", 2 * (n - i)));
                } else if self.discr == 2 && i % 2 == 0 {
                    vd.discr = Some(format!("{}", i + 1));
                }
                vd
            }).collect());
            if self.discr != 0 {
                it.attrs.push("#[repr(u8)]".into());
            }
            it
        } else {
            ItemDef::strukt("X", g, fields_of(&self.variants[0]))
        }
    }
    pub fn self_ty(&self) -> &'static str {
        if self.generic() {
            "X<V>"
        } else {
            "X"
        }
    }
    /// all values, in the canonical order shared with the generated program
    pub fn values(&self) -> Vec<(usize, Vec<u8>)> {
        fn rec(fields: &[FieldSpec], i: usize, cur: &mut Vec<u8>, vi: usize, out: &mut Vec<(usize, Vec<u8>)>) {
            if i == fields.len() {
                out.push((vi, cur.clone()));
                return;
            }
            for a in 0..fields[i].dom {
                cur.push(a);
                rec(fields, i + 1, cur, vi, out);
                cur.pop();
            }
        }
        let mut out = Vec::new();
        for (vi, v) in self.variants.iter().enumerate() {
            rec(&v.fields, 0, &mut Vec::new(), vi, &mut out);
        }
        out
    }
    /// code pushing all values into `vals` in the same order as `values()`
    pub fn values_code(&self) -> String {
        let mut s = String::new();
        for (vi, v) in self.variants.iter().enumerate() {
            let path = if self.is_enum { format!("X::{}", VNAMES[vi]) } else { "X".to_string() };
            let fd = match v.kind {
                VKind::Unit => FieldsDef::Unit,
                VKind::Tuple => FieldsDef::of(false, v.fields.iter().map(|f| FieldDef::tuple(f.ty.text())).collect()),
                VKind::Named => FieldsDef::of(true, v.fields.iter().map(|f| FieldDef::tuple(f.ty.text())).collect()),
            };
            let args: Vec<String> = v.fields.iter().enumerate().map(|(i, f)| f.ty.ctor(&format!("a{i}"))).collect();
            let mut line = format!("vals.push({});", fd.ctor(&path, &args));
            for (i, f) in v.fields.iter().enumerate().rev() {
                line = format!("for a{i} in 0..{}u8 {{ {line} }}", f.dom);
            }
            s.push_str("    ");
            s.push_str(&line);
            s.push('\n');
        }
        s
    }
    pub fn describe(&self) -> String {
        let mut parts = Vec::new();
        for (vi, v) in self.variants.iter().enumerate() {
            let fs: Vec<String> = v.fields.iter().map(|f| if f.combo.is_plain() { f.ty.text().to_string() } else { format!("[{}] {}", f.combo.describe(), f.ty.text()) }).collect();
            parts.push(format!("{}{:?}({})", if self.is_enum { VNAMES[vi] } else { "" }, v.kind, fs.join(", ")));
        }
        format!("{}{} {}", if self.is_enum { "enum" } else { "struct" }, [" ", " with decreasing explicit discriminants ", " with every other discriminant explicit "][self.discr as usize].trim_end(), parts.join(" | "))
    }
}

// ---------------------------------------------------------------------------------------
// reference interpreter
// ---------------------------------------------------------------------------------------

pub fn proj(attr: Tr, style: KeyStyle, v: u8) -> u8 {
    match style {
        KeyStyle::Consistent | KeyStyle::ConsistentPartial => v % 3,
        KeyStyle::Distinct => match attr {
            Ord => v % 2,
            PartialOrd => v % 3,
            Eq => v / 2,
            PartialEq => v / 3,
            Hash => 5 - v,
        },
    }
}

/// comparison of one field under trait `t`; None = field ignored
pub fn field_pc(t: Tr, f: &FieldSpec, style: KeyStyle, a: u8, b: u8) -> Option<Option<Ordering>> {
    let r = match select(&f.combo, t) {
        Sel::Ignored => return None,
        Sel::Default => f.ty.pcmp(a, b),
        Sel::Key(at) if f.identity == Some(at) => f.ty.pcmp(a, b),
        Sel::Key(at) | Sel::By(at) => {
            let (pa, pb) = (proj(at, style, a), proj(at, style, b));
            // the distinct `partial_ord` key / by is partial: projection 2 is incomparable (NaN-like)
            if (at == PartialOrd && style == KeyStyle::Distinct || style == KeyStyle::ConsistentPartial) && (pa == 2 || pb == 2) {
                None
            } else {
                Some(pa.cmp(&pb))
            }
        }
    };
    Some(if reversed(&f.combo, t) { r.map(|o| o.reverse()) } else { r })
}

pub fn ref_eq(ts: &TypeSpec, a: &(usize, Vec<u8>), b: &(usize, Vec<u8>)) -> bool {
    if a.0 != b.0 {
        return false;
    }
    ts.variants[a.0].fields.iter().enumerate().all(|(i, f)| match field_pc(PartialEq, f, ts.style, a.1[i], b.1[i]) {
        None => true,
        Some(pc) => pc == Some(Ordering::Equal),
    })
}
pub fn ref_partial_cmp(ts: &TypeSpec, a: &(usize, Vec<u8>), b: &(usize, Vec<u8>)) -> Option<Ordering> {
    if a.0 != b.0 {
        return Some(a.0.cmp(&b.0));
    }
    for (i, f) in ts.variants[a.0].fields.iter().enumerate() {
        match field_pc(PartialOrd, f, ts.style, a.1[i], b.1[i]) {
            None | Some(Some(Ordering::Equal)) => {}
            Some(o) => return o,
        }
    }
    Some(Ordering::Equal)
}
pub fn ref_cmp(ts: &TypeSpec, a: &(usize, Vec<u8>), b: &(usize, Vec<u8>)) -> Ordering {
    if a.0 != b.0 {
        return a.0.cmp(&b.0);
    }
    for (i, f) in ts.variants[a.0].fields.iter().enumerate() {
        match field_pc(Ord, f, ts.style, a.1[i], b.1[i]) {
            None | Some(Some(Ordering::Equal)) => {}
            Some(Some(o)) => return o,
            Some(None) => panic!("reference: partial type under Ord"),
        }
    }
    Ordering::Equal
}
pub fn ord_ch(o: Ordering) -> char {
    match o {
        Ordering::Less => 'L',
        Ordering::Equal => 'E',
        Ordering::Greater => 'G',
    }
}
pub fn pord_ch(o: Option<Ordering>) -> char {
    o.map(ord_ch).unwrap_or('N')
}

/// Effective hash input of every non-ignored field as reference *code* run inside the
/// generated program (`x` is the value, `h` the RecHasher).
fn ref_feed_code(ts: &TypeSpec) -> String {
    let mut s = String::from("fn ref_feed(x: &SelfTy) -> String {\n    let mut h = RecHasher::new();\n");
    let field_stmt = |f: &FieldSpec, place: &str| -> Option<String> {
        match select(&f.combo, Hash) {
            Sel::Ignored => None,
            Sel::Default => Some(format!("::core::hash::Hash::hash(&{place}, &mut h);")),
            Sel::Key(at) => {
                let k = if f.identity == Some(at) { "$".to_string() } else { key_expr(at, ts.style, f.form) }.replace('$', &format!("({place})")).replace(FRAG, "(0 + 1)");
                Some(format!("::core::hash::Hash::hash(&({k}), &mut h);"))
            }
            Sel::By(at) => Some(format!("{}(&{place}, &mut h);", by_expr(at, ts.style))),
        }
    };
    if ts.is_enum {
        s.push_str("    match x {\n");
        for (vi, v) in ts.variants.iter().enumerate() {
            let binders: Vec<String> = (0..v.fields.len()).map(|i| format!("b{i}")).collect();
            let fd = match v.kind {
                VKind::Unit => FieldsDef::Unit,
                VKind::Tuple => FieldsDef::of(false, v.fields.iter().map(|f| FieldDef::tuple(f.ty.text())).collect()),
                VKind::Named => FieldsDef::of(true, v.fields.iter().map(|f| FieldDef::tuple(f.ty.text())).collect()),
            };
            let pat = fd.ctor(&format!("X::{}", VNAMES[vi]), &binders);
            let stmts: Vec<String> = v.fields.iter().enumerate().filter_map(|(i, f)| field_stmt(f, &format!("(*b{i})"))).collect();
            s.push_str(&format!("        {pat} => {{ {} }}\n", stmts.join(" ")));
        }
        s.push_str("    }\n");
    } else {
        let v = &ts.variants[0];
        let fd = match v.kind {
            VKind::Unit => FieldsDef::Unit,
            VKind::Tuple => FieldsDef::of(false, v.fields.iter().map(|f| FieldDef::tuple(f.ty.text())).collect()),
            VKind::Named => FieldsDef::of(true, v.fields.iter().map(|f| FieldDef::tuple(f.ty.text())).collect()),
        };
        for (i, f) in v.fields.iter().enumerate() {
            if let Some(st) = field_stmt(f, &format!("x.{}", fd.member(i))) {
                s.push_str(&format!("    {st}\n"));
            }
        }
    }
    s.push_str("    h.log\n}\n");
    s
}

/// C17: when `Eq` is derived together with `PartialEq`, the value `==` really compares must be `Eq`. The distinct
/// `partial_ord` key is the NaN-like `Pv`: a type whose `==` goes through it is refused by rustc by design (E0277
/// in the hidden Eq assertion), so such a program has no behaviour to observe.
pub fn refused_by_eq_assertion(ts: &TypeSpec, derived: &[Tr]) -> bool {
    if !(derived.contains(&Eq) && derived.contains(&PartialEq)) || ts.style != KeyStyle::Distinct {
        return false;
    }
    ts.variants.iter().any(|v| v.fields.iter().any(|f| {
        let customized = [Eq, Ord].iter().any(|a| f.combo.get(*a).key() || f.combo.get(*a).by());
        customized && select(&f.combo, PartialEq) == Sel::Key(PartialOrd) && f.identity != Some(PartialOrd)
    }))
}

/// Does the in-process expander accept every derived trait?  Err(description) otherwise.
pub fn expander_accepts(entry: Entry, derived: &[Tr], item: &str) -> Result<(), String> {
    let traits = names(derived);
    let item = &item.replace(FRAG, "(0 + 1)");
    let (_, al) = expand::expand_aligned(entry, &traits.join(", "), item, &traits)?;
    // (an explicit shared bound(..) does not influence acceptance)
    match al {
        Aligned::Whole(m) => Err(format!("whole derivation failed: {m}")),
        Aligned::PerTrait(slots) => {
            for (s, t) in slots.iter().zip(derived) {
                if let Some(m) = s.error() {
                    return Err(format!("{} rejected: {}", t.name(), m.lines().next().unwrap_or("")));
                }
            }
            Ok(())
        }
    }
}

/// The generated module body for one case.
pub fn program(ts: &TypeSpec, derived: &[Tr], entry: Entry) -> String {
    let item = ts.item();
    let list = match ts.shared_arg {
        Some(a) if a != STACKED && a != VIA_MACRO && a != STACKED_QUALIFIED => format!("{}, {}", names(derived).join(", "), a),
        _ => names(derived).join(", "),
    };
    let head = match entry {
        // one `#[derive_ex(Trait)]` attribute per trait, stacked on the item
        Entry::Attr if ts.shared_arg == Some(STACKED) => names(derived).iter().map(|t| format!("#[derive_ex({t})]")).collect::<Vec<_>>().join("\n"),
        Entry::Attr if ts.shared_arg == Some(STACKED_QUALIFIED) => names(derived).iter().enumerate().map(|(i, t)| if i == 0 { format!("#[derive_ex({t})]") } else { format!("#[::derive_ex::derive_ex({t})]") }).collect::<Vec<_>>().join("\n"),
        Entry::Attr => format!("#[derive_ex({list})]"),
        Entry::Derive => format!("#[derive(Ex)]\n#[derive_ex({list})]"),
    };
    let g = if ts.generic() { "<T>" } else { "" };
    let gd = ts.decl_generics();
    let has = |t: Tr| derived.contains(&t);
    let mut s = String::new();
    s.push_str("use derive_ex::{derive_ex, Ex};\nuse dxrt::{V, Pv, W, RecHasher};\n");
    let printed = item.print();
    match (ts.shared_arg == Some(VIA_MACRO), crate::gen::macroize_helper_attrs(&head, &printed)) {
        // a key built around an `expr` fragment: the whole definition is the body of a macro, `$` arrives as a `tt`
        _ if printed.contains(FRAG) => s.push_str(&format!("macro_rules! mk_frag {{ ($d:tt, $e:expr) => {{\n{head}\n{}\n}} }}\nmk_frag!($, 0 + 1);\n", printed.replace('$', "$d").replace(FRAG, "$e"))),
        (true, Some(m)) => s.push_str(&m),
        _ => {
            s.push_str(&head);
            s.push('\n');
            s.push_str(&printed);
            s.push('\n');
        }
    }
    s.push_str(&format!("type SelfTy = {};\n", ts.self_ty()));
    // hand-written supertraits the derived set lacks (never observed)
    let need_pe = !has(PartialEq) && (has(Eq) || has(PartialOrd) || has(Ord));
    let need_eq = !has(Eq) && has(Ord);
    let need_po = !has(PartialOrd) && has(Ord);
    if need_pe {
        s.push_str(&format!("impl{gd} ::core::cmp::PartialEq for X{g} {{ fn eq(&self, _: &Self) -> bool {{ false }} }}\n"));
    }
    if need_eq {
        s.push_str(&format!("impl{gd} ::core::cmp::Eq for X{g} {{}}\n"));
    }
    if need_po {
        s.push_str(&format!("impl{gd} ::core::cmp::PartialOrd for X{g} {{ fn partial_cmp(&self, _: &Self) -> Option<::core::cmp::Ordering> {{ None }} }}\n"));
    }
    if has(Hash) {
        s.push_str(&ref_feed_code(ts));
    }
    s.push_str("pub fn run() -> String {\n    let mut vals: Vec<SelfTy> = Vec::new();\n");
    s.push_str(&ts.values_code());
    s.push_str("    let mut out = String::new();\n");
    if has(PartialEq) {
        s.push_str("    out.push_str(\"E:\"); for a in &vals { for b in &vals { out.push(dxrt::bool_ch(a == b)); out.push(dxrt::bool_ch(!(a != b))); } }\n    out.push('#');\n");
    }
    if has(PartialOrd) {
        s.push_str("    out.push_str(\"P:\"); for a in &vals { for b in &vals { out.push(dxrt::pord_ch(::core::cmp::PartialOrd::partial_cmp(a, b))); } }\n    out.push('#');\n");
    }
    if has(Ord) {
        s.push_str("    out.push_str(\"O:\"); for a in &vals { for b in &vals { out.push(dxrt::ord_ch(::core::cmp::Ord::cmp(a, b))); } }\n    out.push('#');\n");
    }
    if has(Hash) {
        s.push_str("    out.push_str(\"H:\"); for a in &vals { out.push_str(&RecHasher::of(a)); out.push('~'); out.push_str(&ref_feed(a)); out.push('/'); }\n    out.push('#');\n");
    }
    s.push_str("    out\n}\n");
    s
}

#[derive(Default, Debug, Clone)]
pub struct Obs {
    pub eq: Option<String>,
    pub pc: Option<String>,
    pub cmp: Option<String>,
    pub hash: Option<Vec<(String, String)>>,
}

pub fn parse_obs(s: &str) -> Obs {
    let mut o = Obs::default();
    for sec in s.split('#') {
        if let Some(r) = sec.strip_prefix("E:") {
            o.eq = Some(r.to_string());
        } else if let Some(r) = sec.strip_prefix("P:") {
            o.pc = Some(r.to_string());
        } else if let Some(r) = sec.strip_prefix("O:") {
            o.cmp = Some(r.to_string());
        } else if let Some(r) = sec.strip_prefix("H:") {
            o.hash = Some(r.split('/').filter(|x| !x.is_empty()).map(|x| { let mut it = x.splitn(2, '~'); (it.next().unwrap_or("").to_string(), it.next().unwrap_or("").to_string()) }).collect());
        }
    }
    o
}

/// Expected observation strings per the reference.
pub fn expected(ts: &TypeSpec, derived: &[Tr]) -> Obs {
    let vals = ts.values();
    let mut o = Obs::default();
    if derived.contains(&PartialEq) {
        let mut s = String::new();
        for a in &vals {
            for b in &vals {
                let e = ref_eq(ts, a, b);
                s.push(if e { 't' } else { 'f' });
                s.push(if e { 't' } else { 'f' });
            }
        }
        o.eq = Some(s);
    }
    if derived.contains(&PartialOrd) {
        let mut s = String::new();
        for a in &vals {
            for b in &vals {
                s.push(pord_ch(ref_partial_cmp(ts, a, b)));
            }
        }
        o.pc = Some(s);
    }
    if derived.contains(&Ord) {
        let mut s = String::new();
        for a in &vals {
            for b in &vals {
                s.push(ord_ch(ref_cmp(ts, a, b)));
            }
        }
        o.cmp = Some(s);
    }
    o
}

/// First index where two strings differ.
pub fn first_diff(a: &str, b: &str) -> Option<usize> {
    if a.len() != b.len() {
        return Some(a.len().min(b.len()));
    }
    a.bytes().zip(b.bytes()).position(|(x, y)| x != y)
}

pub fn show_val(ts: &TypeSpec, v: &(usize, Vec<u8>)) -> String {
    let name = if ts.is_enum { VNAMES[v.0] } else { "X" };
    format!("{}{:?}", name, v.1)
}
