//! C09 — operators derived from a user impl forward to it faithfully.
//! Channel X (DESIGN.md 5/C09).

use crate::c08::BIN;
use crate::explore::{explore, replay, Ch};
use crate::report::Report;
use crate::xrun::{run_and_compare, XCase};
use crate::Ctx;
use serde_json::json;
use std::collections::BTreeSet;

#[derive(Clone, Copy, PartialEq, Eq, Debug)]
enum Base {
    /// `impl Op<Rhs|&Rhs> for A|&A`  (lhs_is_ref, rhs_is_ref)
    Binary(bool, bool),
    /// `impl OpAssign<Rhs|&Rhs> for A`  (rhs_is_ref)
    Assign(bool),
}

#[derive(Clone, Copy, PartialEq, Eq, Debug)]
enum RhsTy {
    /// Rhs = Self type, generic argument omitted (only for the owned/owned base) or written out
    SameOmitted,
    SameExplicit,
    /// written as `Self` (owned lhs only)
    SameAsSelfKw,
    Other,
    /// `&'a B` with an EXPLICIT lifetime: documented / implemented as an opaque by-value operand type
    OtherLt,
}

#[derive(Clone, Debug)]
struct Case {
    vector: Vec<usize>,
    op: usize,
    base: Base,
    rhs: RhsTy,
    want_binary: bool,
    want_assign: bool,
    generic: bool,
    /// `#[derive_ex(OpAssign, Op)]` instead of `#[derive_ex(Op, OpAssign)]`
    assign_first: bool,
    /// the user impl comes out of a macro_rules! macro; its self type and Rhs arrive as `ty` fragments
    via_macro: bool,
    /// uses of `Self` in the user's bounds: 0 none, 1 where-clause predicate `Self: Sized`, 2 (generic) inline
    /// bound `T: Rel<Self>` where `Rel` is implemented exactly for the base impl's own Self type
    self_where: usize,
}

fn gen(ch: &mut Ch, thorough: bool) -> Option<Case> {
    let op = ch.pick(10);
    let bases = [Base::Binary(false, false), Base::Binary(false, true), Base::Binary(true, false), Base::Binary(true, true), Base::Assign(false), Base::Assign(true)];
    let base = *ch.of(&bases);
    let rhs = *ch.of(&[RhsTy::SameExplicit, RhsTy::Other, RhsTy::SameOmitted, RhsTy::SameAsSelfKw, RhsTy::OtherLt]);
    let req = ch.pick(3); // 0 {Op}, 1 {OpAssign}, 2 {Op, OpAssign}
    let generic = ch.flag();
    let assign_first = ch.flag();
    if assign_first && req != 2 {
        return None;
    }
    let via_macro = ch.flag();
    if via_macro && (!matches!(base, Base::Binary(..)) || !matches!(rhs, RhsTy::SameExplicit | RhsTy::Other) || generic) {
        return None;
    }
    let self_where = ch.pick(5);
    // (macro-generated impls also with the predicate on `Self` that only the base form satisfies)
    if via_macro && self_where != 0 && self_where != 4 {
        return None;
    }
    if self_where == 2 && !generic {
        return None;
    }
    let (want_binary, want_assign) = match req {
        0 => (true, false),
        1 => (false, true),
        _ => (true, true),
    };
    if let Base::Assign(_) = base {
        if want_assign {
            return None; // documented: only `Op` can be derived from `impl OpAssign`
        }
    }
    match rhs {
        RhsTy::SameOmitted => {
            if base != Base::Binary(false, false) && base != Base::Assign(false) {
                return None;
            }
        }
        RhsTy::SameAsSelfKw => match base {
            Base::Binary(false, false) | Base::Assign(false) => {}
            Base::Binary(false, true) | Base::Assign(true) => {}
            _ => return None,
        },
        // the reference is part of the operand TYPE: modelled as a by-value Rhs
        RhsTy::OtherLt => match base {
            Base::Binary(_, false) | Base::Assign(false) => {}
            _ => return None,
        },
        _ => {}
    }
    if !thorough {
        // quick: Sub and Shl in full, the other operators on the owned base with {Op, OpAssign}
        let full = op == 9 || op == 8;
        if !full && !(base == Base::Binary(false, false) && req == 2 && rhs == RhsTy::SameExplicit && !generic) {
            return None;
        }
        if full && op == 8 && generic {
            return None;
        }
        if !full && (self_where != 0 || via_macro) {
            return None;
        }
        if op == 8 && rhs == RhsTy::OtherLt {
            return None;
        }
    }
    Some(Case { vector: ch.vector(), op, base, rhs, want_binary, want_assign, generic, assign_first, via_macro, self_where })
}

fn build(c: &Case, tier: &str) -> XCase {
    let (tr, f, sym) = BIN[c.op];
    let tra = format!("{tr}Assign");
    let fa = format!("{f}_assign");
    let g = if c.generic { "<T>" } else { "" };
    let has_lt = c.rhs == RhsTy::OtherLt;
    let gi = match (c.generic, has_lt, c.self_where == 2) {
        (true, false, false) => "<T: ::core::clone::Clone>",
        (true, true, false) => "<'a, T: ::core::clone::Clone>",
        (true, false, true) => "<T: ::core::clone::Clone + Rel<Self>>",
        (true, true, true) => "<'a, T: ::core::clone::Clone + Rel<Self>>",
        (false, true, _) => "<'a>",
        (false, false, _) => "",
    };
    let wh = match (c.generic, c.self_where) {
        (true, 1) => " where T: ::core::default::Default, Self: ::core::marker::Sized",
        (true, 3) => " where T: ::core::default::Default, for<'b> Self: Hr<'b>",
        (true, 4) => " where T: ::core::default::Default, Self: OnlyBase",
        (true, _) => " where T: ::core::default::Default",
        (false, 4) => " where Self: OnlyBase",
        (false, 1) => " where Self: ::core::marker::Sized",
        (false, 3) => " where for<'b> Self: Hr<'b>",
        (false, _) => "",
    };
    let a_ty = format!("A{g}");
    let same = !matches!(c.rhs, RhsTy::Other | RhsTy::OtherLt);
    let b_ty = if same { a_ty.clone() } else { format!("B{g}") };
    let conc = if c.generic { "<u8>" } else { "" };
    let (a_c, b_c) = (format!("A{conc}"), if same { format!("A{conc}") } else if has_lt { format!("&'static B{conc}") } else { format!("B{conc}") });
    let mut s = String::new();
    s.push_str("use derive_ex::derive_ex;\nuse ::core::marker::PhantomData;\n");
    // user items named like the identifiers an expansion might introduce: as a parameter or binding name any of them
    // would turn into a constant pattern
    s.push_str("#[allow(non_camel_case_types, dead_code)] pub struct rhs;\n#[allow(non_camel_case_types, dead_code)] pub struct lhs;\n#[allow(non_camel_case_types, dead_code)] pub struct this;\n#[allow(non_camel_case_types, dead_code)] pub struct other;\n#[allow(non_camel_case_types, dead_code)] pub struct source;\n#[allow(non_camel_case_types, dead_code)] pub struct value;\n#[allow(non_camel_case_types, dead_code)] pub struct o;\n#[allow(non_upper_case_globals, dead_code)] pub const result: u8 = 0;\n");
    // a user trait that happens to be called `Clone` (the generated code must name the std trait by its path)
    s.push_str("pub trait Clone { fn clone(&self) -> Self; }\n");
    for n in ["A", "B"] {
        if c.generic {
            s.push_str(&format!("#[derive(Debug)] pub struct {n}<T>(pub String, pub PhantomData<T>);\nimpl<T> ::core::clone::Clone for {n}<T> {{ fn clone(&self) -> Self {{ dxrt::log(format!(\"clone{n}[{{}}]\", self.0)); {n}(::core::clone::Clone::clone(&self.0), PhantomData) }} }}\nimpl<T> Clone for {n}<T> {{ fn clone(&self) -> Self {{ dxrt::log(\"user-trait-named-Clone\".to_string()); {n}(String::from(\"WRONG\"), PhantomData) }} }}\n"));
        } else {
            s.push_str(&format!("#[derive(Debug)] pub struct {n}(pub String, pub PhantomData<u8>);\nimpl ::core::clone::Clone for {n} {{ fn clone(&self) -> Self {{ dxrt::log(format!(\"clone{n}[{{}}]\", self.0)); {n}(::core::clone::Clone::clone(&self.0), PhantomData) }} }}\nimpl Clone for {n} {{ fn clone(&self) -> Self {{ dxrt::log(\"user-trait-named-Clone\".to_string()); {n}(String::from(\"WRONG\"), PhantomData) }} }}\n"));
        }
    }
    if c.self_where == 3 {
        // a predicate that already carries a higher-ranked binder; Hr holds for A and for references to A
        if c.generic {
            s.push_str("pub trait Hr<'b> {}\nimpl<'b, T> Hr<'b> for A<T> {}\nimpl<'b, 'x, T> Hr<'b> for &'x A<T> {}\n");
        } else {
            s.push_str("pub trait Hr<'b> {}\nimpl<'b> Hr<'b> for A {}\nimpl<'b, 'x> Hr<'b> for &'x A {}\n");
        }
    }
    if c.self_where == 4 {
        // holds for the base impl's own Self type ONLY: copied verbatim into a derived impl for the other form, `Self`
        // would name a type that does not implement it
        let base_self_is_ref = matches!(c.base, Base::Binary(true, _));
        s.push_str(&match (base_self_is_ref, c.generic) {
            (true, true) => "pub trait OnlyBase {}\nimpl<'x, T> OnlyBase for &'x A<T> {}\n".to_string(),
            (true, false) => "pub trait OnlyBase {}\nimpl<'x> OnlyBase for &'x A {}\n".to_string(),
            (false, true) => "pub trait OnlyBase {}\nimpl<T> OnlyBase for A<T> {}\n".to_string(),
            (false, false) => "pub trait OnlyBase {}\nimpl OnlyBase for A {}\n".to_string(),
        });
    }
    if c.self_where == 2 {
        // implemented for the base impl's own Self type only
        let base_self_is_ref = matches!(c.base, Base::Binary(true, _));
        if base_self_is_ref {
            s.push_str("pub trait Rel<X> {}\nimpl<'x, T> Rel<&'x A<T>> for T {}\n");
        } else {
            s.push_str("pub trait Rel<X> {}\nimpl<T> Rel<A<T>> for T {}\n");
        }
    }
    let mut list = Vec::new();
    if c.want_binary {
        list.push(tr.to_string());
    }
    if c.want_assign {
        list.push(tra.clone());
    }
    if c.assign_first {
        list.reverse();
    }
    if !c.via_macro {
        s.push_str(&format!("#[derive_ex({})]\n", list.join(", ")));
    }
    match c.base {
        Base::Binary(bl, br) => {
            let lt = if bl { format!("&{a_ty}") } else { a_ty.clone() };
            let rt_written = match c.rhs {
                RhsTy::SameOmitted => String::new(),
                RhsTy::SameAsSelfKw => if br { "<&Self>".to_string() } else { "<Self>".to_string() },
                RhsTy::OtherLt => format!("<&'a {b_ty}>"),
                _ => format!("<{}{}>", if br { "&" } else { "" }, b_ty),
            };
            let rt = if has_lt { format!("&'a {b_ty}") } else { format!("{}{}", if br { "&" } else { "" }, b_ty) };
            let out_ty = if !bl && c.rhs == RhsTy::SameAsSelfKw { "Self".to_string() } else { a_ty.clone() };
            if c.via_macro {
                s.push_str(&format!("macro_rules! mk_impl {{ ($t:ty, $r:ty) => {{\n#[derive_ex({})]\nimpl{gi} ::core::ops::{tr}<$r> for $t{wh} {{\n    type Output = {out_ty};\n    fn {f}(self, r_: $r) -> {a_ty} {{ dxrt::log(\"base\".to_string()); A(format!(\"({{}}{sym}{{}})\", self.0, r_.0), PhantomData) }}\n}}\n}} }}\nmk_impl!({lt}, {rt});\n", list.join(", ")));
            } else
            { s.push_str(&format!("impl{gi} ::core::ops::{tr}{rt_written} for {lt}{wh} {{\n    type Output = {out_ty};\n    fn {f}(self, r_: {rt}) -> {a_ty} {{ dxrt::log(\"base\".to_string()); A(format!(\"({{}}{sym}{{}})\", self.0, r_.0), PhantomData) }}\n}}\n")); }
        }
        Base::Assign(br) => {
            let rt_written = match c.rhs {
                RhsTy::SameOmitted => String::new(),
                RhsTy::SameAsSelfKw => if br { "<&Self>".to_string() } else { "<Self>".to_string() },
                RhsTy::OtherLt => format!("<&'a {b_ty}>"),
                _ => format!("<{}{}>", if br { "&" } else { "" }, b_ty),
            };
            let rt = if has_lt { format!("&'a {b_ty}") } else { format!("{}{}", if br { "&" } else { "" }, b_ty) };
            s.push_str(&format!("impl{gi} ::core::ops::{tra}{rt_written} for {a_ty}{wh} {{\n    fn {fa}(&mut self, r_: {rt}) {{ dxrt::log(\"base\".to_string()); self.0 = format!(\"({{}}{sym}={{}})\", self.0, r_.0); }}\n}}\n"));
        }
    }
    s.push_str(&format!("type SA = {a_c};\ntype SB = {b_c};\n"));
    s.push_str(&format!("fn mka(i: usize) -> SA {{ A([\"x\", \"y\", \"z\"][i].to_string(), PhantomData) }}\nfn mkb(i: usize) -> SB {{ {}{}([\"p\", \"q\", \"r\"][i].to_string(), PhantomData){} }}\n", if has_lt { "Box::leak(Box::new(" } else { "" }, if same { "A" } else { "B" }, if has_lt { "))" } else { "" }));
    s.push_str("fn logs() -> String { let mut l = dxrt::take_log(); l.sort(); l.join(\",\") }\n");
    s.push_str("pub fn run() -> String {\n    let mut out = String::new();\n    for i in 0..3usize { for j in 0..3usize {\n");
    let mut exp = String::new();
    let av = ["x", "y", "z"];
    let bv = ["p", "q", "r"];
    // which forms exist
    let mut bin_forms: Vec<(bool, bool)> = Vec::new();
    let mut asg_forms: Vec<bool> = Vec::new();
    match c.base {
        Base::Binary(bl, br) => {
            if c.want_binary {
                bin_forms = vec![(false, false), (false, true), (true, false), (true, true)];
            } else {
                bin_forms = vec![(bl, br)];
            }
            if c.want_assign {
                asg_forms = if c.want_binary { vec![false, true] } else { vec![br] };
            }
        }
        Base::Assign(br) => {
            asg_forms = vec![br];
            if c.want_binary {
                bin_forms = vec![(false, br)];
            }
        }
    }
    for &(l, r) in &bin_forms {
        let lt = if l { "&SA" } else { "SA" };
        let rt = if r { "&SB" } else { "SB" };
        let le = if l { "&a" } else { "a" };
        let re = if r { "&b" } else { "b" };
        s.push_str(&format!("        {{ let a = mka(i); let b = mkb(j); dxrt::take_log(); let r: SA = <{lt} as ::core::ops::{tr}<{rt}>>::{f}({le}, {re}); out.push_str(&format!(\"bin{}{} {{}}{{}}:{{}}|{{}};\", i, j, r.0, logs())); }}\n", l as u8, r as u8));
    }
    for &r in &asg_forms {
        let rt = if r { "&SB" } else { "SB" };
        let re = if r { "&b" } else { "b" };
        s.push_str(&format!("        {{ let mut a = mka(i); let b = mkb(j); let b2 = mkb(j); dxrt::take_log(); <SA as ::core::ops::{tra}<{rt}>>::{fa}(&mut a, {re}); out.push_str(&format!(\"asg{} {{}}{{}}:{{}}|{{}}|{{}};\", i, j, a.0, logs(), b2.0)); }}\n", r as u8));
    }
    s.push_str("    } }\n    out\n}\n");
    // reference
    let bname = if same { "A" } else { "B" };
    for i in 0..3 {
        for j in 0..3 {
            for &(l, r) in &bin_forms {
                let (res, mut log) = match c.base {
                    Base::Binary(bl, br) => {
                        let mut log = vec!["base".to_string()];
                        if l && !bl {
                            log.push(format!("cloneA[{}]", av[i]));
                        }
                        if r && !br && !has_lt {
                            log.push(format!("clone{bname}[{}]", bv[j]));
                        }
                        (format!("({}{}{})", av[i], sym, bv[j]), log)
                    }
                    Base::Assign(_) => (format!("({}{}={})", av[i], sym, bv[j]), vec!["base".to_string()]),
                };
                log.sort();
                exp.push_str(&format!("bin{}{} {}{}:{}|{};", l as u8, r as u8, i, j, res, log.join(",")));
            }
            for &r in &asg_forms {
                let (res, mut log) = match c.base {
                    Base::Binary(bl, br) => {
                        let mut log = vec!["base".to_string()];
                        if !bl {
                            log.push(format!("cloneA[{}]", av[i]));
                        }
                        if r && !br && !has_lt {
                            log.push(format!("clone{bname}[{}]", bv[j]));
                        }
                        (format!("({}{}{})", av[i], sym, bv[j]), log)
                    }
                    Base::Assign(_) => (format!("({}{}={})", av[i], sym, bv[j]), vec!["base".to_string()]),
                };
                log.sort();
                exp.push_str(&format!("asg{} {}{}:{}|{}|{};", r as u8, i, j, res, log.join(","), bv[j]));
            }
        }
    }
    let mut atoms = BTreeSet::new();
    atoms.insert(format!("op={tr}"));
    atoms.insert(format!("base={:?}", c.base));
    atoms.insert(format!("rhs={:?}", c.rhs));
    atoms.insert(format!("requested={}", list.join("+")));
    atoms.insert(format!("generic={}", c.generic));
    atoms.insert(format!("self_in_where={}", c.self_where));
    atoms.insert(format!("via_macro={}", c.via_macro));
    let desc = format!("derive_ex({}) on user impl base {:?} rhs {:?}{}", list.join(", "), c.base, c.rhs, if c.generic { " generic" } else { "" }).to_string() + if c.via_macro { " [impl generated by macro_rules!, self type and Rhs as ty fragments]" } else { "" } + ["", " where Self: Sized", " T: Rel<Self>", " where for<'b> Self: Hr<'b>", " where Self: OnlyBase (a trait of the base impl's own Self type only)"][c.self_where];
    XCase {
        text: s.clone(),
        code: s,
        expected: exp,
        atoms,
        nontrivial: true,
        detail: json!({"vector": c.vector, "tier": tier, "op": tr, "base": format!("{:?}", c.base), "rhs": format!("{:?}", c.rhs), "requested": list}),
        what: desc,
        inner: 9 * (bin_forms.len() + asg_forms.len()) as u64,
        symptom: "forwarding-result-or-call-trace-differs".into(),
        must_compile: true,
    }
}

/// User impls whose header has ANONYMOUS lifetimes (`W<'_>`, the 2018 idiom): `Self` in `Output` / the header types are
/// repeated by the derived impls in positions where `'_` is not allowed. Terminal state = (operator, base in
/// {Op with Output = Self, Op with Output not mentioning Self, OpAssign}, requested trait); all forms are executed.
fn anonymous_lifetime_cases(tier: &str) -> Vec<XCase> {
    let mut v = Vec::new();
    for (tr, f, sym) in [("Sub", "sub", "-"), ("Shl", "shl", "<<")] {
        let tra = format!("{tr}Assign");
        let fa = format!("{f}_assign");
        // (description, requested, user impl, run body, expected)
        let bases: Vec<(&str, String, String, String, String)> = vec![
            ("Op<u32> for W<'_> with Output = Self", format!("{tr}Assign"), format!("impl ::core::ops::{tr}<u32> for W<'_> {{ type Output = Self; fn {f}(self, r: u32) -> Self {{ W(self.0, self.1 + r) }} }}"),
             format!("let z = 0u8; let mut a = W(&z, 1); a {sym}= 5u32; format!(\"{{}}\", a.1)"), "6".to_string()),
            ("Op<u32> for W<'_> with Output = Self, by-reference forms", format!("{tr}"), format!("impl ::core::ops::{tr}<u32> for W<'_> {{ type Output = Self; fn {f}(self, r: u32) -> Self {{ W(self.0, self.1 + r) }} }}"),
             format!("let z = 0u8; let a = W(&z, 1); let b = &a {sym} 5u32; let c = &a {sym} &6u32; let d = a {sym} &7u32; format!(\"{{}};{{}};{{}}\", b.1, c.1, d.1)"), "6;7;8".to_string()),
            ("Op<u32> for W<'_> with Output = u32", format!("{tr}"), format!("impl ::core::ops::{tr}<u32> for W<'_> {{ type Output = u32; fn {f}(self, r: u32) -> u32 {{ self.1 + r }} }}"),
             format!("let z = 0u8; let a = W(&z, 1); format!(\"{{}};{{}};{{}}\", &a {sym} 5u32, &a {sym} &6u32, a {sym} &7u32)"), "6;7;8".to_string()),
            ("OpAssign<u32> for W<'_>", format!("{tr}"), format!("impl ::core::ops::{tra}<u32> for W<'_> {{ fn {fa}(&mut self, r: u32) {{ self.1 += r; }} }}"),
             format!("let z = 0u8; let a = W(&z, 1); let b = a {sym} 5u32; format!(\"{{}}\", b.1)"), "6".to_string()),
        ];
        // references without a lifetime NESTED in the header types are anonymous lifetimes as well; a `'_` inside a
        // fn-pointer type is not (it is higher-ranked over the pointer's own signature)
        let mut bases = bases;
        bases.push(("Op<u8> for G<&u8> with Output = Self", format!("{tr}"), format!("impl ::core::ops::{tr}<u8> for G<&u8> {{ type Output = Self; fn {f}(self, r: u8) -> Self {{ G(self.0, self.1 + r as u32) }} }}"),
             format!("let z = 0u8; let a = G(&z, 1); let b = &a {sym} 5u8; let c = a {sym} &7u8; format!(\"{{}};{{}}\", b.1, c.1)"), "6;8".to_string()));
        bases.push(("OpAssign<u8> for G<&u8>", format!("{tr}"), format!("impl ::core::ops::{tra}<u8> for G<&u8> {{ fn {fa}(&mut self, r: u8) {{ self.1 += r as u32; }} }}"),
             format!("let z = 0u8; let a = G(&z, 1); let b = a {sym} 5u8; format!(\"{{}}\", b.1)"), "6".to_string()));
        bases.push(("Op<u8> for G<fn(&'_ u8) -> u8> with Output = u32", format!("{tr}"), format!("impl ::core::ops::{tr}<u8> for G<fn(&'_ u8) -> u8> {{ type Output = u32; fn {f}(self, r: u8) -> u32 {{ self.1 + (self.0)(&r) as u32 }} }}"),
             format!("fn id(x: &u8) -> u8 {{ *x }} let a: G<fn(&u8) -> u8> = G(id, 1); format!(\"{{}};{{}}\", &a {sym} 5u8, a {sym} &7u8)"), "6;8".to_string()));
        bases.push(("Op<G<&u8>> for G<&'_ u8> (anonymous lifetimes in the self type and in Rhs)", format!("{tr}"), format!("impl ::core::ops::{tr}<G<&u8>> for G<&'_ u8> {{ type Output = u32; fn {f}(self, r: G<&u8>) -> u32 {{ self.1 + r.1 }} }}"),
             format!("let z = 0u8; let a = G(&z, 1); let b = G(&z, 5); format!(\"{{}};{{}}\", &a {sym} &b, a {sym} &b)"), "6;6".to_string()));
        // an impl for a reference WITHOUT lifetime whose header also has an anonymous lifetime and whose where-clause has
        // a `Self` bound (two lifetime-naming mechanisms at once); `Self` inside the arguments of a where-bound
        bases.push(("Op<u32> for &W2<'_, T> where Self: Weight", format!("{tr}"), format!("impl<T: Clone> ::core::ops::{tr}<u32> for &W2<'_, T> where Self: Weight {{ type Output = u32; fn {f}(self, r: u32) -> u32 {{ *self.0 as u32 + r }} }}"),
             format!("let z = 1u8; let a = W2(&z, 0u8); format!(\"{{}};{{}};{{}}\", &a {sym} &5u32, W2(&z, 0u8) {sym} 6u32, W2(&z, 0u8) {sym} &7u32)"), "6;7;8".to_string()));
        bases.push(("Op for &G<T> where T: Scale<Self> + Clone", format!("{tr}"), format!("impl<T> ::core::ops::{tr} for &G<T> where T: Scale<Self> + Clone {{ type Output = u32; fn {f}(self, r: &G<T>) -> u32 {{ self.1 + r.1 }} }}"),
             format!("let a = G(0u8, 1); let b = G(0u8, 5); format!(\"{{}};{{}};{{}}\", &a {sym} b.clone(), a.clone() {sym} &b, a {sym} b)"), "6;6;6".to_string()));
        // the lint level attributes of the user's impl cover the impls derived from it (a deprecated operand type)
        bases.push(("#[allow(deprecated)] impl Op<Dep> for Dep, under deny(deprecated)", format!("{tr}"), format!("#[allow(deprecated)] impl ::core::ops::{tr}<dep::Dep> for dep::Dep {{ type Output = u32; fn {f}(self, r: dep::Dep) -> u32 {{ self.0 + r.0 }} }}"),
             format!("#[allow(deprecated)] let r = {{ let a = dep::Dep(1); let b = dep::Dep(5); (&a {sym} &b, a.clone() {sym} &b, &a {sym} b) }}; format!(\"{{}};{{}};{{}}\", r.0, r.1, r.2)"), "6;6;6".to_string()));
        for (what, req, imp, run, exp) in bases {
            let code = format!("use derive_ex::derive_ex;\npub mod dep {{ #[deprecated] #[derive(Clone, Debug)] pub struct Dep(pub u32); }}\n#[derive(Clone, Debug)] pub struct W<'a>(pub &'a u8, pub u32);\n#[derive(Clone, Debug)] pub struct G<T>(pub T, pub u32);\n#[derive(Clone, Debug)] pub struct W2<'a, T>(pub &'a u8, pub T);\npub trait Weight {{}}\nimpl<'x, 'y, T> Weight for &'x W2<'y, T> {{}}\npub trait Scale<S> {{}}\nimpl<'x> Scale<&'x G<u8>> for u8 {{}}\n#[deny(deprecated)] mod inner {{ use super::*;\n#[derive_ex({req})]\n{imp}\n}}\npub fn run() -> String {{ {run} }}\n");
            let mut atoms = BTreeSet::new();
            atoms.insert(format!("op={tr}"));
            atoms.insert("header=anonymous-lifetime".to_string());
            v.push(XCase { text: format!("derive_ex({req}) {imp}"), code, expected: exp, atoms, nontrivial: true, detail: json!({"kind": "anonymous-lifetime", "tier": tier, "impl": imp, "requested": req}), what: format!("derive_ex({req}) on `{what}` ({tr})"), inner: 3, symptom: "forwarding-result-or-call-trace-differs".into(), must_compile: true });
        }
    }
    v
}

pub fn run(ctx: &Ctx, rep: &mut Report) {
    let thorough = ctx.tier.is_thorough();
    rep.rule = "terminal state = (operator, base form of the user impl [A|&A x Rhs|&Rhs, or OpAssign<Rhs|&Rhs>], Rhs type [Self omitted / written / `Self` keyword / another type / a reference to another type with an explicit lifetime (an opaque by-value operand)], requested set {Op},{OpAssign},{Op,OpAssign} in both list orders, generic or not, user bounds without `Self`, with a where-clause predicate on `Self`, or (generic) an inline bound `T: Rel<Self>` that only the base impl's own Self type satisfies); inner enumeration = all 9 operand pairs x every owned/reference form that exists; distinct by program text; every case is non-trivial (user bodies are non-commutative and log calls and clones)".into();
    rep.assumptions = vec!["reference: each form returns the user's result for the same operands in the same order, the user impl is called exactly once, an operand is cloned exactly once and only when received by reference (or as &mut self) but needed by value; op= from op equals a = a op b; op from op= equals {a op= b; a}; call/clone logs compared as multisets".into()];
    let mut cases = Vec::new();
    if let Some(p) = &ctx.replay {
        let v: serde_json::Value = serde_json::from_str(&std::fs::read_to_string(p).expect("replay file")).expect("replay json");
        let vec: Vec<usize> = v["case"]["vector"].as_array().unwrap().iter().map(|x| x.as_u64().unwrap() as usize).collect();
        let th = v["case"]["tier"] == "thorough";
        cases.push(replay(|ch| gen(ch, th), &vec).unwrap_or_else(|| crate::report::machinery("replayed vector is pruned")));
    } else {
        let st = explore(|ch| gen(ch, thorough), |_, c| cases.push(c));
        rep.stats.add(&st);
    }
    let mut x: Vec<XCase> = cases.iter().map(|c| build(c, ctx.tier.name())).collect();
    if ctx.replay.is_none() {
        x.extend(anonymous_lifetime_cases(ctx.tier.name()));
    }
    run_and_compare(rep, "c09", &x);
}
