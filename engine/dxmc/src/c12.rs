//! C12 — without helper attributes derive_ex is a drop-in for the standard derives.
//! Channels R (the std twin alone must compile, then the pair must) and X (behaviour equal
//! to the std-derived twin on all values / pairs).

use crate::c10::SPECS;
use crate::expand::Entry;
use crate::explore::{explore, replay, Ch};
use crate::gen::*;
use crate::report::{Report, Violation};
use crate::runner;
use crate::xrun::first_bad_segment;
use crate::Ctx;
use serde_json::json;
use std::collections::BTreeSet;

#[derive(Clone, Copy, PartialEq, Eq, Debug)]
enum GOpt {
    None,
    T,
    LifetimeT,
    ConstN,
    DefaultT,
    WhereT,
    UnsizedTail,
    Float,
    /// `<T: IntoIterator>` with fields of the projection type `T::Item` (T := [u8; 2])
    Assoc,
    /// a const parameter named like a type in scope: `<const Option: usize>`
    ConstLikeType,
    /// `<'a, 'b, T>` with fields `&'a T` and `&'b T`: the same field type up to lifetimes
    TwoLifetimes,
    /// a type parameter called `H` (the name the standard Hash signature uses for its own parameter)
    ParamH,
    /// lifetime parameters with inline outlives bounds: `<'a, 'b: 'a, T: 'b>` with fields `&'b T` and `&'a u8`
    Outlives,
    /// a const parameter declared BEFORE the type parameter: `<const N: usize, T>`
    ConstFirst,
    /// shared references to UNSIZED types that mention the parameter: `<'a, T>` with fields `&'a [T]`
    RefUnsized,
}
const GOPTS: [GOpt; 15] = [GOpt::None, GOpt::T, GOpt::LifetimeT, GOpt::ConstN, GOpt::DefaultT, GOpt::WhereT, GOpt::UnsizedTail, GOpt::Float, GOpt::Assoc, GOpt::ConstLikeType, GOpt::TwoLifetimes, GOpt::ParamH, GOpt::Outlives, GOpt::ConstFirst, GOpt::RefUnsized];

#[derive(Clone, Copy, PartialEq, Eq, Debug)]
enum Naming {
    Neutral,
    Raw,
    /// the type is called `Option`, its variants `Some`, `None`, `Ok`, .. (names the expansion may use unqualified)
    Prelude,
}
#[derive(Clone, Copy, PartialEq, Eq, Debug)]
enum Extra {
    None,
    ReprC,
    NonExhaustive,
    /// the derive_ex list is split over two stacked `#[derive_ex(..)]` attributes (like several `#[derive(..)]` lines)
    Stacked,
    /// the definition comes out of a `macro_rules!` macro; the field type `u8` arrives as an `ident` fragment
    ViaMacro,
    /// a user trait with by-value methods named like the methods generated code might call in method syntax
    /// (`finish`, `field`, `clone`, `eq`, ..) is in scope at the definition (the twin sits in a scope without it)
    HostileMethods,
}

/// bodies with more fields than this get the sparse value set
const WIDE_FROM: usize = 4;

const ALL: [&str; 9] = ["Copy", "Clone", "Debug", "Default", "PartialEq", "Eq", "PartialOrd", "Ord", "Hash"];

#[derive(Clone, Debug)]
struct Case {
    gen: &'static str,
    vector: Vec<usize>,
    shape: Shape,
    gopt: GOpt,
    naming: Naming,
    extra: Extra,
    /// traits derived by derive_ex (the rest of the applicable ones by the standard derive)
    list: Vec<&'static str>,
    entry: Entry,
}

fn lists() -> Vec<Vec<&'static str>> {
    // supertrait-closed lists: a derive_ex impl with field-type bounds cannot sit on top of a
    // std-derived supertrait impl with parameter bounds (that is not a defect of either)
    let mut v: Vec<Vec<&'static str>> = vec![vec!["Clone"], vec!["Copy", "Clone"], vec!["Debug"], vec!["Default"], vec!["PartialEq"], vec!["Eq", "PartialEq"], vec!["PartialOrd", "PartialEq"], vec!["Ord", "PartialOrd", "Eq", "PartialEq"], vec!["Hash"]];
    v.push(ALL.to_vec());
    v.push(vec!["Clone", "Debug", "Default"]);
    v.push(vec!["Ord", "PartialOrd", "Eq", "PartialEq", "Hash"]);
    v
}

/// traits that make sense for the shape / generics option (what the std twin derives)
fn applicable(c: &Case) -> Vec<&'static str> {
    let mut v: Vec<&'static str> = ALL.to_vec();
    let has_unit = c.shape.variants.iter().any(|x| x.kind == SKind::Unit);
    if c.shape.is_enum && !has_unit {
        v.retain(|t| *t != "Default"); // the standard derive needs a unit variant to mark
    }
    if c.shape.is_enum && c.shape.variants.is_empty() {
        v.retain(|t| *t != "Default");
    }
    match c.gopt {
        GOpt::UnsizedTail => v.retain(|t| !matches!(*t, "Copy" | "Clone" | "Default")),
        GOpt::Float => v.retain(|t| !matches!(*t, "Eq" | "Ord" | "Hash")),
        GOpt::LifetimeT | GOpt::ConstN | GOpt::ConstLikeType | GOpt::TwoLifetimes | GOpt::Outlives | GOpt::ConstFirst | GOpt::RefUnsized => v.retain(|t| *t != "Default"),
        _ => {}
    }
    v
}

fn field_ty(c: &Case, vi: usize, fi: usize) -> (&'static str, Vec<&'static str>) {
    let last_of_struct = !c.shape.is_enum && fi + 1 == c.shape.variants[0].n;
    match c.gopt {
        GOpt::None => ("u8", vec!["0u8", "1u8"]),
        GOpt::T | GOpt::DefaultT | GOpt::WhereT => match (vi + fi) % 3 {
            0 => ("T", vec!["0u8", "1u8"]),
            1 => ("Option<T>", vec!["None", "Some(1u8)"]),
            _ => ("u8", vec!["0u8", "1u8"]),
        },
        GOpt::LifetimeT => match (vi + fi) % 3 {
            0 => ("&'a T", vec!["&0u8", "&1u8"]),
            // the parameter behind a reference and by value in one type
            1 => ("T", vec!["0u8", "1u8"]),
            _ => ("u8", vec!["0u8", "1u8"]),
        },
        GOpt::ConstN => match (vi + fi) % 2 {
            0 => ("[u8; N]", vec!["[0u8, 1]", "[1u8, 0]"]),
            _ => ("u8", vec!["0u8", "1u8"]),
        },
        GOpt::UnsizedTail => {
            if last_of_struct {
                ("T", vec!["[1u8, 2]", "[1u8, 3]"])
            } else {
                ("u8", vec!["0u8", "1u8"])
            }
        }
        GOpt::Float => match (vi + fi) % 2 {
            0 => ("f32", vec!["0.0f32", "1.0f32", "f32::NAN"]),
            _ => ("u8", vec!["0u8", "1u8"]),
        },
        GOpt::Assoc => match (vi + fi) % 2 {
            0 => ("T::Item", vec!["0u8", "1u8"]),
            _ => ("Option<T::Item>", vec!["None", "Some(1u8)"]),
        },
        GOpt::ParamH => match (vi + fi) % 3 {
            0 => ("H", vec!["0u8", "1u8"]),
            1 => ("Option<H>", vec!["None", "Some(1u8)"]),
            _ => ("u8", vec!["0u8", "1u8"]),
        },
        GOpt::TwoLifetimes => match (vi + fi) % 2 {
            0 => ("&'a T", vec!["&0u8", "&1u8"]),
            _ => ("&'b T", vec!["&0u8", "&1u8"]),
        },
        GOpt::RefUnsized => match (vi + fi) % 2 {
            0 => ("&'a [T]", vec!["&[0u8, 1][..]", "&[1u8][..]"]),
            _ => ("u8", vec!["0u8", "1u8"]),
        },
        GOpt::ConstFirst => match (vi + fi) % 2 {
            0 => ("[T; N]", vec!["[0u8, 1]", "[1u8, 0]"]),
            _ => ("T", vec!["0u8", "1u8"]),
        },
        GOpt::Outlives => match (vi + fi) % 3 {
            0 => ("&'b T", vec!["&0u8", "&1u8"]),
            1 => ("&'a u8", vec!["&0u8", "&1u8"]),
            _ => ("u8", vec!["0u8", "1u8"]),
        },
        GOpt::ConstLikeType => match (vi + fi) % 2 {
            0 => ("[u8; Option]", vec!["[0u8, 1]", "[1u8, 0]"]),
            _ => ("u8", vec!["0u8", "1u8"]),
        },
    }
}

fn generics_of(g: GOpt) -> (&'static str, &'static str, &'static str) {
    // (declaration, where-clause, concrete arguments)
    match g {
        GOpt::None | GOpt::Float => ("", "", ""),
        GOpt::T => ("<T>", "", "<u8>"),
        GOpt::LifetimeT => ("<'a, T>", "", "<'static, u8>"),
        GOpt::ConstN => ("<const N: usize>", "", "<2>"),
        GOpt::DefaultT => ("<T = u8>", "", ""),
        GOpt::WhereT => ("<T>", "where T: Copy", "<u8>"),
        GOpt::UnsizedTail => ("<T: ?Sized>", "", "<[u8]>"),
        GOpt::Assoc => ("<T: ::core::iter::IntoIterator>", "", "<[u8; 2]>"),
        GOpt::ConstLikeType => ("<const Option: usize>", "", "<2>"),
        GOpt::TwoLifetimes => ("<'a, 'b, T>", "", "<'static, 'static, u8>"),
        GOpt::ParamH => ("<H>", "", "<u8>"),
        GOpt::Outlives => ("<'a, 'b: 'a, T: 'b>", "", "<'static, 'static, u8>"),
        GOpt::ConstFirst => ("<const N: usize, T>", "", "<2, u8>"),
        GOpt::RefUnsized => ("<'a, T>", "", "<'static, u8>"),
    }
}

fn uses_all_params(c: &Case) -> bool {
    let mut tys = Vec::new();
    for (vi, v) in c.shape.variants.iter().enumerate() {
        for fi in 0..v.n {
            tys.push(field_ty(c, vi, fi).0);
        }
    }
    match c.gopt {
        GOpt::None => true,
        GOpt::Float => tys.contains(&"f32"),
        GOpt::T | GOpt::DefaultT | GOpt::WhereT => tys.iter().any(|t| t.contains('T')),
        GOpt::LifetimeT => tys.contains(&"&'a T"),
        GOpt::ConstN => tys.contains(&"[u8; N]"),
        GOpt::UnsizedTail => !c.shape.is_enum && c.shape.variants[0].n >= 1,
        GOpt::Assoc => tys.iter().any(|t| t.contains("T::Item")),
        GOpt::ConstLikeType => tys.contains(&"[u8; Option]"),
        GOpt::TwoLifetimes => tys.contains(&"&'a T") && tys.contains(&"&'b T"),
        GOpt::ParamH => tys.iter().any(|t| t.contains('H')),
        GOpt::Outlives => tys.contains(&"&'b T") && tys.contains(&"&'a u8"),
        GOpt::ConstFirst => tys.contains(&"[T; N]"),
        GOpt::RefUnsized => tys.contains(&"&'a [T]"),
    }
}

fn finish(ch: &mut Ch, gen: &'static str, shape: Shape, gopt: GOpt, naming: Naming, extra: Extra, thorough: bool) -> Option<Case> {
    let ls = lists();
    let list = ch.of(&ls).clone();
    let entry = *ch.of(&Entry::BOTH);
    let c = Case { gen, vector: ch.vector(), shape, gopt, naming, extra, list, entry };
    if !uses_all_params(&c) {
        return None;
    }
    let app = applicable(&c);
    // the list restricted to what is applicable must stay non-empty and keep its meaning
    if !c.list.iter().all(|t| app.contains(t)) {
        if c.list.len() < 3 {
            return None;
        }
    }
    if c.list.iter().filter(|t| app.contains(*t)).count() == 0 {
        return None;
    }
    if !thorough && entry == Entry::Derive && c.list.len() != ALL.len() {
        return None;
    }
    Some(c)
}

/// G1: all shapes, no generics
fn gen_shapes(ch: &mut Ch, thorough: bool) -> Option<Case> {
    let shape = if thorough { pick_shape(ch, 3, 3, true) } else { pick_shape(ch, 2, 2, true) };
    finish(ch, "shapes", shape, GOpt::None, Naming::Neutral, Extra::None, thorough)
}

fn vs(kind: SKind, n: usize) -> VShape {
    VShape { kind, n }
}

/// G2: generics options / raw identifiers / extra attributes on representative shapes
fn gen_options(ch: &mut Ch, thorough: bool) -> Option<Case> {
    let mut shapes = vec![
        Shape { is_enum: false, variants: vec![vs(SKind::Tuple, 2)] },
        Shape { is_enum: false, variants: vec![vs(SKind::Named, 3)] },
        Shape { is_enum: false, variants: vec![vs(SKind::Tuple, 1)] },
        Shape { is_enum: true, variants: vec![vs(SKind::Unit, 0), vs(SKind::Tuple, 2), vs(SKind::Named, 1)] },
        Shape { is_enum: true, variants: vec![vs(SKind::Named, 2), vs(SKind::Tuple, 1)] },
        Shape { is_enum: true, variants: vec![vs(SKind::Tuple, 1)] },
    ];
    if thorough {
        shapes.push(Shape { is_enum: false, variants: vec![vs(SKind::Named, 4)] });
        shapes.push(Shape { is_enum: true, variants: vec![vs(SKind::Unit, 0), vs(SKind::Unit, 0), vs(SKind::Tuple, 4), vs(SKind::Named, 2), vs(SKind::Tuple, 0)] });
        shapes.push(Shape { is_enum: true, variants: vec![vs(SKind::Named, 0), vs(SKind::Unit, 0)] });
    }
    let shape = ch.of(&shapes).clone();
    let gopt = *ch.of(&GOPTS);
    let naming = *ch.of(&[Naming::Neutral, Naming::Raw, Naming::Prelude]);
    if naming == Naming::Prelude && gopt != GOpt::None {
        return None;
    }
    let extra = *ch.of(&[Extra::None, Extra::ReprC, Extra::NonExhaustive, Extra::Stacked, Extra::ViaMacro, Extra::HostileMethods]);
    if extra == Extra::ViaMacro && (gopt != GOpt::None || naming != Naming::Neutral) {
        return None;
    }
    let dev = (gopt != GOpt::None) as usize + (naming != Naming::Neutral) as usize + (extra != Extra::None) as usize;
    // raw identifiers together with a type parameter (which is then raw as well) are explored in the quick tier too
    let raw_generic = naming == Naming::Raw && gopt == GOpt::T && extra == Extra::None;
    if dev == 0 || (dev > if thorough { 2 } else { 1 } && !raw_generic) {
        return None;
    }
    finish(ch, "options", shape, gopt, naming, extra, thorough)
}

/// G3: wide bodies - ten or more fields / variants (two-digit tuple indices, binding names, discriminant order)
fn gen_wide(ch: &mut Ch, thorough: bool) -> Option<Case> {
    let mut many = vec![vs(SKind::Unit, 0); 9];
    many.push(vs(SKind::Tuple, 2));
    many.push(vs(SKind::Named, 11));
    many.push(vs(SKind::Unit, 0));
    let shapes = vec![
        Shape { is_enum: false, variants: vec![vs(SKind::Tuple, 13)] },
        Shape { is_enum: false, variants: vec![vs(SKind::Named, 12)] },
        Shape { is_enum: true, variants: many },
        Shape { is_enum: true, variants: vec![vs(SKind::Tuple, 11), vs(SKind::Unit, 0)] },
    ];
    let shape = ch.of(&shapes).clone();
    let gopt = *ch.of(&[GOpt::None, GOpt::T]);
    finish(ch, "wide", shape, gopt, Naming::Neutral, Extra::None, thorough)
}

fn names(c: &Case) -> (String, Vec<String>, Box<dyn Fn(usize) -> String>) {
    match c.naming {
        Naming::Neutral => ("X".to_string(), (0..c.shape.variants.len().max(SHAPE_VNAMES.len())).map(|i| if i < SHAPE_VNAMES.len() { SHAPE_VNAMES[i].to_string() } else { format!("V{i}") }).collect(), Box::new(|i| fname(i))),
        Naming::Prelude => ("Option".to_string(), vec!["Some".into(), "None".into(), "Ok".into(), "Err".into(), "Vec".into(), "Box".into()], Box::new(|i| fname(i))),
        Naming::Raw => ("r#type".to_string(), vec!["r#match".into(), "r#fn".into(), "r#loop".into(), "r#move".into(), "r#ref".into(), "r#use".into()], Box::new(|i| ["r#fn", "r#type", "r#struct", "r#impl"][i % 4].to_string())),
    }
}

/// the item text (without derives) and the constructor expressions of all values
fn item_and_values(c: &Case, module: &str) -> (String, Vec<String>) {
    let (tname, vnames, fnm) = names(c);
    let (gdecl, wh, _) = generics_of(c.gopt);
    let sh = &c.shape;
    let mut vals: Vec<String> = Vec::new();
    let body_of = |vi: usize, in_enum: bool| -> String {
        let v = &sh.variants[vi];
        let fields: Vec<String> = (0..v.n).map(|fi| {
            let ty = field_ty(c, vi, fi).0;
            match v.kind {
                SKind::Named => format!("{}{}: {}", if in_enum { "" } else { "pub " }, fnm(fi), ty),
                _ => format!("{}{}", if in_enum { "" } else { "pub " }, ty),
            }
        }).collect();
        match v.kind {
            SKind::Unit => String::new(),
            SKind::Tuple => format!("({})", fields.join(", ")),
            SKind::Named => format!(" {{ {} }}", fields.join(", ")),
        }
    };
    // values
    for (vi, v) in sh.variants.iter().enumerate() {
        let doms: Vec<Vec<&'static str>> = (0..v.n).map(|fi| field_ty(c, vi, fi).1).collect();
        let mut idx = vec![0usize; v.n];
        let path = if sh.is_enum { format!("{module}::{tname}::{}", vnames[vi]) } else { format!("{module}::{tname}") };
        let mk = |idx: &[usize]| -> String {
            let args: Vec<String> = (0..v.n).map(|fi| doms[fi][idx[fi]].to_string()).collect();
            match v.kind {
                SKind::Unit => path.clone(),
                SKind::Tuple => format!("{}({})", path, args.join(", ")),
                SKind::Named => format!("{} {{ {} }}", path, (0..v.n).map(|fi| format!("{}: {}", fnm(fi), args[fi])).collect::<Vec<_>>().join(", ")),
            }
        };
        if v.n > WIDE_FROM {
            // wide bodies: the full product is out of reach; all-first, every one-hot, every pair-hot of
            // neighbours and all-last still tell WHICH field decided a comparison and where a field went
            vals.push(mk(&idx));
            for i in 0..v.n {
                let mut one = idx.clone();
                one[i] = 1;
                vals.push(mk(&one));
                if i + 1 < v.n {
                    one[i + 1] = 1;
                    vals.push(mk(&one));
                }
            }
            vals.push(mk(&vec![1usize; v.n]));
            continue;
        }
        loop {
            vals.push(mk(&idx));
            let mut k = v.n;
            loop {
                if k == 0 {
                    break;
                }
                k -= 1;
                idx[k] += 1;
                if idx[k] < doms[k].len() {
                    break;
                }
                idx[k] = 0;
                if k == 0 {
                    k = usize::MAX;
                    break;
                }
            }
            if v.n == 0 || k == usize::MAX {
                break;
            }
        }
    }
    let extra = match c.extra {
        Extra::None | Extra::Stacked | Extra::ViaMacro | Extra::HostileMethods => "",
        Extra::ReprC => "#[repr(C)] ",
        Extra::NonExhaustive => "#[non_exhaustive] ",
    };
    let item = if sh.is_enum {
        let first_unit = sh.variants.iter().position(|v| v.kind == SKind::Unit);
        let vs: Vec<String> = (0..sh.variants.len()).map(|vi| format!("{}{}{}", if Some(vi) == first_unit && applicable(c).contains(&"Default") { "#[default] " } else { "" }, vnames[vi], body_of(vi, true))).collect();
        format!("{extra}pub enum {tname}{gdecl} {wh} {{ {} }}", vs.join(", "))
    } else {
        let v = &sh.variants[0];
        match v.kind {
            SKind::Named => format!("{extra}pub struct {tname}{gdecl} {wh}{}", body_of(0, false)),
            _ => format!("{extra}pub struct {tname}{gdecl}{} {wh};", body_of(0, false)),
        }
    };
    // raw identifiers also for the type parameter
    let item = if c.naming == Naming::Raw {
        let mut out = String::new();
        let b: Vec<char> = item.chars().collect();
        for (i, ch) in b.iter().enumerate() {
            let prev_ok = i == 0 || !(b[i - 1].is_alphanumeric() || b[i - 1] == '_' || b[i - 1] == '#');
            let next_ok = i + 1 >= b.len() || !(b[i + 1].is_alphanumeric() || b[i + 1] == '_');
            if *ch == 'T' && prev_ok && next_ok {
                out.push_str("r#trait");
            } else {
                out.push(*ch);
            }
        }
        out
    } else {
        item
    };
    (item, vals)
}

struct Built {
    twin_only: String,
    full: String,
    expected: String,
    text: String,
}

fn build(c: &Case) -> Built {
    let app = applicable(c);
    let dx_list: Vec<&str> = c.list.iter().copied().filter(|t| app.contains(t)).collect();
    let std_rest: Vec<&str> = app.iter().copied().filter(|t| !dx_list.contains(t)).collect();
    let (tname, _, _) = names(c);
    let (_, _, gargs) = generics_of(c.gopt);
    let (item, vals_dx) = item_and_values(c, "dx");
    let (_, vals_st) = item_and_values(c, "st");
    let lists_text = if c.extra == Extra::Stacked && dx_list.len() >= 2 { format!("#[derive_ex({})]\n#[derive_ex({})]", dx_list[0], dx_list[1..].join(", ")) } else { format!("#[derive_ex({})]", dx_list.join(", ")) };
    let head = match c.entry {
        Entry::Attr => lists_text,
        Entry::Derive => format!("#[derive(Ex)]\n{lists_text}"),
    };
    let std_derive = |l: &[&str]| if l.is_empty() { String::new() } else { format!("#[derive({})]", l.join(", ")) };
    let st_mod = format!("pub mod st {{\n{}\n{}\n}}\n", std_derive(&app), item);
    let dx_mod = if c.extra == Extra::ViaMacro {
        format!("pub mod dx {{ use derive_ex::{{derive_ex, Ex}};\nmacro_rules! mk_item {{ ($t:ident) => {{\n{head}\n{}\n{}\n}} }}\nmk_item!(u8);\n}}\n", std_derive(&std_rest), crate::c10::replace_word(&item, "u8", "$t"))
    } else if c.extra == Extra::HostileMethods {
        format!("{}pub mod dx {{ use derive_ex::{{derive_ex, Ex}};\nuse super::hostile::Hostile as _;\n{head}\n{}\n{}\n}}\n", crate::c13::HOSTILE, std_derive(&std_rest), item)
    } else {
        format!("pub mod dx {{ use derive_ex::{{derive_ex, Ex}};\n{head}\n{}\n{}\n}}\n", std_derive(&std_rest), item)
    };
    let has = |t: &str| app.contains(&t);
    let unsized_ = c.gopt == GOpt::UnsizedTail;
    let mut s = String::new();
    s.push_str(&st_mod);
    let twin_only = s.clone();
    s.push_str(&dx_mod);
    s.push_str(&format!("type D = dx::{tname}{gargs};\ntype S = st::{tname}{gargs};\n"));
    s.push_str("macro_rules! specs { ($e:expr) => { vec![");
    for sp in SPECS {
        s.push_str(&format!("format!({sp:?}, $e), "));
    }
    s.push_str("] } }\n");
    s.push_str("fn flag(out: &mut String, name: &str, ok: bool, detail: String) { if ok { out.push_str(&format!(\"{}:t;\", name)) } else { out.push_str(&format!(\"{}:f[{}];\", name, detail.replace(';', \",\"))) } }\n");
    s.push_str("pub fn run() -> String {\n    let mut out = String::new();\n");
    s.push_str(&format!("    let ds: Vec<Box<D>> = vec![{}];\n", vals_dx.iter().map(|v| format!("Box::new({v})")).collect::<Vec<_>>().join(", ")));
    s.push_str(&format!("    let ss: Vec<Box<S>> = vec![{}];\n", vals_st.iter().map(|v| format!("Box::new({v})")).collect::<Vec<_>>().join(", ")));
    let mut exp = String::new();
    if has("Debug") {
        s.push_str("    { let mut ok = true; let mut d = String::new(); for (a, b) in ds.iter().zip(ss.iter()) { let (x, y) = (specs!(&**a), specs!(&**b)); if x != y && ok { ok = false; d = format!(\"{:?} vs {:?}\", x, y); } } flag(&mut out, \"debug\", ok, d); }\n");
        exp.push_str("debug:t;");
    }
    if has("Clone") && !unsized_ {
        s.push_str("    { let mut ok = true; let mut d = String::new(); for (a, b) in ds.iter().zip(ss.iter()) { let (x, y) = (format!(\"{:?}\", ::core::clone::Clone::clone(&**a)), format!(\"{:?}\", ::core::clone::Clone::clone(&**b))); let mut t = ::core::clone::Clone::clone(&*ds[0]); ::core::clone::Clone::clone_from(&mut t, &**a); if (x != y || format!(\"{:?}\", t) != y) && ok { ok = false; d = format!(\"{} / {:?} vs {}\", x, t, y); } } flag(&mut out, \"clone\", ok, d); }\n");
        exp.push_str("clone:t;");
    }
    if has("Default") && !unsized_ {
        s.push_str("    { let (x, y) = (format!(\"{:?}\", <D as ::core::default::Default>::default()), format!(\"{:?}\", <S as ::core::default::Default>::default())); flag(&mut out, \"default\", x == y, format!(\"{} vs {}\", x, y)); }\n");
        exp.push_str("default:t;");
    }
    if has("PartialEq") {
        s.push_str("    { let mut ok = true; let mut d = String::new(); for i in 0..ds.len() { for j in 0..ds.len() { let (x, y) = (*ds[i] == *ds[j], *ss[i] == *ss[j]); let (x2, y2) = (*ds[i] != *ds[j], *ss[i] != *ss[j]); if (x != y || x2 != y2) && ok { ok = false; d = format!(\"{} {}: {} vs {}\", i, j, x, y); } } } flag(&mut out, \"eq\", ok, d); }\n");
        exp.push_str("eq:t;");
    }
    if has("PartialOrd") {
        s.push_str("    { let mut ok = true; let mut d = String::new(); for i in 0..ds.len() { for j in 0..ds.len() { let (x, y) = (::core::cmp::PartialOrd::partial_cmp(&*ds[i], &*ds[j]), ::core::cmp::PartialOrd::partial_cmp(&*ss[i], &*ss[j])); let (x2, y2) = (*ds[i] < *ds[j], *ss[i] < *ss[j]); if (x != y || x2 != y2) && ok { ok = false; d = format!(\"{} {}: {:?} vs {:?}\", i, j, x, y); } } } flag(&mut out, \"partial_cmp\", ok, d); }\n");
        exp.push_str("partial_cmp:t;");
    }
    if has("Ord") {
        s.push_str("    { let mut ok = true; let mut d = String::new(); for i in 0..ds.len() { for j in 0..ds.len() { let (x, y) = (::core::cmp::Ord::cmp(&*ds[i], &*ds[j]), ::core::cmp::Ord::cmp(&*ss[i], &*ss[j])); if x != y && ok { ok = false; d = format!(\"{} {}: {:?} vs {:?}\", i, j, x, y); } } } flag(&mut out, \"cmp\", ok, d); }\n");
        exp.push_str("cmp:t;");
    }
    if has("Hash") && has("PartialEq") {
        s.push_str("    { let mut ok = true; let mut d = String::new(); for i in 0..ds.len() { for j in 0..ds.len() { if *ds[i] == *ds[j] && dxrt::RecHasher::of(&*ds[i]) != dxrt::RecHasher::of(&*ds[j]) && ok { ok = false; d = format!(\"{} {} equal but hash differently\", i, j); } } } flag(&mut out, \"hash\", ok, d); }\n");
        exp.push_str("hash:t;");
    }
    if has("Copy") && !unsized_ {
        s.push_str("    { fn is_copy<T: ::core::marker::Copy>() {} is_copy::<D>(); out.push_str(\"copy:t;\"); }\n");
        exp.push_str("copy:t;");
    }
    s.push_str(&format!("    out.push_str(&format!(\"n={{}};\", ds.len()));\n    out\n}}\n"));
    exp.push_str(&format!("n={};", vals_dx.len()));
    Built { twin_only, full: s, expected: exp, text: format!("{} derive_ex({}) + derive({}) {}{}", c.entry.name(), dx_list.join(","), std_rest.join(","), item, match c.extra { Extra::Stacked => " [two stacked lists]", Extra::ViaMacro => " [out of a macro_rules! macro]", Extra::HostileMethods => " [by-value trait methods finish / field / clone / eq / .. in scope]", _ => "" }) }
}

pub fn run(ctx: &Ctx, rep: &mut Report) {
    let thorough = ctx.tier.is_thorough();
    rep.rule = "terminal state = (struct/enum shape incl. enums without variants, generics option in {none, <T>, <'a, T>, <const N>, defaulted parameter, where-clause, T: ?Sized tail, f32 field}, naming in {neutral, raw identifiers for type / variants / fields}, extra attribute in {none, repr(C), non_exhaustive}, the traits derived by derive_ex [supertrait-closed lists: 9 single-trait closures, all nine, two groups] with the remaining applicable traits derived by the standard derive on the same type, entry point); oracle = a twin deriving everything with the standard derive; inner enumeration = every value / ordered pair of the product of the per-field domains x 14 format specs; distinct by program text; non-trivial = at least one field".into();
    rep.assumptions = vec!["shapes whose std-derived twin does not compile on its own are skipped (counted); for the others the combined program must compile and Clone/clone_from, Debug (14 specs), Default, ==, !=, partial_cmp, <, cmp agree with the twin on all values / pairs, Hash feeds are equal whenever == holds, and Copy is implemented".into()];
    let mut cases: Vec<Case> = Vec::new();
    let gens: [(&str, fn(&mut Ch, bool) -> Option<Case>); 3] = [("shapes", gen_shapes), ("options", gen_options), ("wide", gen_wide)];
    if let Some(p) = &ctx.replay {
        let v: serde_json::Value = serde_json::from_str(&std::fs::read_to_string(p).expect("replay file")).expect("replay json");
        let vec: Vec<usize> = v["case"]["vector"].as_array().unwrap().iter().map(|x| x.as_u64().unwrap() as usize).collect();
        let th = v["case"]["tier"] == "thorough";
        let g = gens.iter().find(|g| v["case"]["gen"] == g.0).map(|g| g.1).unwrap_or(gen_shapes);
        cases.push(replay(|ch| g(ch, th), &vec).unwrap_or_else(|| crate::report::machinery("replayed vector is pruned")));
    } else {
        for (_, g) in gens {
            let st = explore(|ch| g(ch, thorough), |_, c| cases.push(c));
            rep.stats.add(&st);
        }
    }
    let built: Vec<Built> = cases.iter().map(build).collect();
    // phase A: the std twin alone (distinct twins only)
    let mut twin_keys: Vec<String> = built.iter().map(|b| b.twin_only.clone()).collect();
    twin_keys.sort();
    twin_keys.dedup();
    let twin_res = runner::run_cases(&twin_keys.iter().map(|t| runner::Case { code: t.clone() }).collect::<Vec<_>>(), &runner::Opts::check("c12t"));
    let twin_ok: std::collections::BTreeMap<&String, bool> = twin_keys.iter().zip(twin_res.iter()).map(|(k, r)| (k, r.compiled())).collect();
    let idx: Vec<usize> = (0..cases.len()).filter(|&i| twin_ok[&built[i].twin_only]).collect();
    rep.set("skipped_std_twin_does_not_compile", json!(cases.len() - idx.len()));
    if let Some(i) = (0..cases.len()).find(|&i| !twin_ok[&built[i].twin_only]) {
        rep.set("first_skipped_twin", json!(built[i].twin_only));
    }
    // phase B
    let mut o = runner::Opts::run("c12");
    o.per_file = 60;
    let res = runner::run_cases(&idx.iter().map(|&i| runner::Case { code: built[i].full.clone() }).collect::<Vec<_>>(), &o);
    for (k, &i) in idx.iter().enumerate() {
        let c = &cases[i];
        let b = &built[i];
        let r = &res[k];
        rep.validated += 1;
        rep.case(&b.text, c.shape.total_fields() >= 1);
        let mut atoms = BTreeSet::new();
        atoms.insert(format!("entry={}", c.entry.name()));
        atoms.insert(format!("gopt={:?}", c.gopt));
        atoms.insert(format!("naming={:?}", c.naming));
        atoms.insert(format!("extra={:?}", c.extra));
        atoms.insert(format!("kind={}", if c.shape.is_enum { "enum" } else { "struct" }));
        for t in &c.list {
            atoms.insert(format!("trait={t}"));
        }
        if c.shape.is_enum && c.shape.variants.is_empty() {
            atoms.insert("shape=empty-enum".into());
        }
        let detail = json!({"gen": c.gen, "vector": c.vector, "tier": ctx.tier.name(), "what": b.text, "program": b.full});
        if !r.compiled() {
            rep.outcome(&format!("does-not-compile:{}", r.codes()));
            atoms.insert(format!("group={}", r.codes()));
            rep.violation(Violation { symptom: format!("twin-compiles-but-derive_ex-does-not:{}", r.codes()), atoms, what: format!("{}: {}", b.text, r.errors().iter().map(|e| format!("{} {}", e.code, runner::first_line(&e.message))).collect::<Vec<_>>().join(" | ")), detail, standalone: Some(format!("mod case {{\n{}\n}}\nfn main() {{}}\n", b.full)) });
            continue;
        }
        if let Some(p) = &r.panicked {
            rep.violation(Violation { symptom: "panic".into(), atoms, what: format!("{}: {}", b.text, p), detail, standalone: None });
            continue;
        }
        let got = r.output.clone().unwrap_or_default();
        let n = c.shape.variants.len().max(1) as u64;
        rep.inner_evaluations += n * n;
        if got != b.expected {
            let (k2, a, e) = first_bad_segment(&got, &b.expected);
            rep.outcome("behaviour-differs-from-std");
            rep.violation(Violation { symptom: format!("differs-from-std-derive:{}", a.split(':').next().unwrap_or("")), atoms, what: format!("{}: observation #{k2} is `{}`, expected `{e}`", b.text, a.chars().take(300).collect::<String>()), detail, standalone: Some(format!("mod case {{\n{}\n}}\nfn main() {{ assert_eq!(case::run(), {:?}); }}\n", b.full, b.expected)) });
        } else {
            rep.outcome("same-as-std-derive");
            if rep.samples.len() < 4 && c.gen == "options" {
                rep.sample(json!({"case": b.text, "observation": got}));
            }
        }
    }
    rep.set("rustc_invocations", json!(runner::STATS.rustc_invocations.load(std::sync::atomic::Ordering::Relaxed)));
}
