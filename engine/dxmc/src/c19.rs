//! C19 — `dump` shows exactly the code that would have been generated (channel E).

use crate::expand::{self, flat_str, lex, Aligned, Entry, OutItem, Slot};
use crate::explore::{par_map, threads};
use crate::report::{Report, Violation};
use crate::seeds::{all_seeds, split_commas, Seed};
use crate::Ctx;
use proc_macro2::TokenTree;
use serde_json::json;
use std::collections::BTreeSet;

/// (trait name or "" for shared args, piece text)
pub fn pieces(attr: &str) -> Vec<(String, String)> {
    let mut v = Vec::new();
    if let Ok(ts) = lex(attr) {
        for p in split_commas(ts) {
            let first = p.clone().into_iter().next();
            let name = match first {
                Some(TokenTree::Ident(i)) => i.to_string(),
                _ => String::new(),
            };
            let is_shared = name == "bound" || name == "dump" || name.is_empty();
            v.push((if is_shared { String::new() } else { name }, p.to_string()));
        }
    }
    v
}

/// add `dump` to the per-trait arguments of piece text `T` / `T(args)`
fn with_dump(piece: &str) -> String {
    let ts: Vec<TokenTree> = lex(piece).map(|t| t.into_iter().collect()).unwrap_or_default();
    match ts.as_slice() {
        [TokenTree::Ident(i)] => format!("{i}(dump)"),
        [TokenTree::Ident(i), TokenTree::Group(g)] => {
            let inner = g.stream().to_string();
            if inner.trim().is_empty() {
                format!("{i}(dump)")
            } else {
                format!("{i}({inner}, dump)")
            }
        }
        _ => piece.to_string(),
    }
}

#[derive(Clone, Debug)]
struct Job {
    seed: usize,
    entry: Entry,
    /// indices (into the trait pieces) that get a per-trait dump; None = shared dump
    dumped: Option<Vec<usize>>,
    attr: String,
    /// item text if it differs from the seed's (extra derive_ex lists in front)
    item: Option<String>,
    /// the item reaches the expander with invisible groups around simple type names and `by = ..` values (as if they
    /// were `macro_rules!` fragments)
    frag: bool,
}

struct Res {
    problems: Vec<(String, String)>,
    nontrivial: bool,
    skipped: bool,
}

fn check_dump_message(msg: &str, want_flat: &str) -> Result<(), String> {
    let rest = msg.strip_prefix("dump:\n").ok_or_else(|| format!("error text does not start with `dump:` (it is: {})", msg.lines().next().unwrap_or("")))?;
    let got = lex(rest).map(flat_str).map_err(|e| format!("dump text does not lex: {e}"))?;
    if got != want_flat {
        let a: Vec<&str> = got.split(' ').collect();
        let b: Vec<&str> = want_flat.split(' ').collect();
        let i = a.iter().zip(b.iter()).position(|(x, y)| x != y).unwrap_or(a.len().min(b.len()));
        return Err(format!("dumped code differs from the generated code at token {i}: dump has `{}`, generated code has `{}`", a[i.saturating_sub(3)..(i + 4).min(a.len())].join(" "), b[i.saturating_sub(3)..(i + 4).min(b.len())].join(" ")));
    }
    Ok(())
}

fn run_job(seeds: &[Seed], j: &Job) -> Res {
    expand::set_fragments(j.frag);
    let r = run_job_inner(seeds, j);
    expand::set_fragments(false);
    r
}

fn run_job_inner(seeds: &[Seed], j: &Job) -> Res {
    let s = &seeds[j.seed];
    let mut problems = Vec::new();
    let base = expand::expand(j.entry, &s.attr, &s.item).and_then(|ts| expand::parse_output(ts, j.entry == Entry::Attr));
    let dumped = expand::expand(j.entry, &j.attr, j.item.as_deref().unwrap_or(&s.item)).and_then(|ts| expand::parse_output(ts, j.entry == Entry::Attr));
    let (base, dumped) = match (base, dumped) {
        (Ok(a), Ok(b)) => (a, b),
        (Err(_), _) => return Res { problems, nontrivial: false, skipped: true },
        (_, Err(e)) => {
            problems.push(("dump-output-malformed".into(), e));
            return Res { problems, nontrivial: false, skipped: false };
        }
    };
    // the item itself untouched
    if j.entry == Entry::Attr {
        let a = base.first().map(|i| flat_str(i.tokens())).unwrap_or_default();
        let b = dumped.first().map(|i| flat_str(i.tokens())).unwrap_or_default();
        if a != b {
            problems.push(("item-changed-by-dump".into(), format!("re-emitted item differs: `{b}` vs `{a}`")));
        }
    }
    if s.is_impl {
        // whole result becomes one error
        let gen: Vec<&OutItem> = base.iter().skip(1).collect();
        if gen.iter().any(|g| matches!(g, OutItem::Error(_))) {
            return Res { problems, nontrivial: false, skipped: true };
        }
        let mut ts = proc_macro2::TokenStream::new();
        for g in &gen {
            ts.extend(g.tokens());
        }
        let want = flat_str(ts);
        let errs: Vec<&OutItem> = dumped.iter().skip(1).collect();
        match errs.as_slice() {
            [OutItem::Error(m)] => {
                if let Err(e) = check_dump_message(m, &want) {
                    problems.push(("dump-text-differs".into(), e));
                }
            }
            _ => problems.push(("dump-not-an-error".into(), format!("expected a single compile_error, got {} items", errs.len()))),
        }
        return Res { problems, nontrivial: !want.is_empty(), skipped: false };
    }
    let (bs, ds) = match (expand::align(&base, &s.traits), expand::align(&dumped, &s.traits)) {
        (Ok(Aligned::PerTrait(a)), Ok(Aligned::PerTrait(b))) => (a, b),
        (Ok(Aligned::PerTrait(_)), other) => {
            problems.push(("dump-output-misaligned".into(), format!("{other:?}").chars().take(300).collect()));
            return Res { problems, nontrivial: false, skipped: false };
        }
        _ => {
            // seeds in which one listed trait cannot be generated: the error belongs to that trait alone, the dumps and
            // impls of the others are still there (the baseline of these seeds is per-trait on a tree that is right)
            if s.origin == "gen:failing-sibling" {
                problems.push(("dump-lost-next-to-a-failing-trait".into(), format!("the expansion of #[derive_ex({})] is not one item per listed trait: a trait that cannot be generated takes the dumps / impls of the others with it", j.attr)));
                return Res { problems, nontrivial: false, skipped: false };
            }
            return Res { problems, nontrivial: false, skipped: true };
        }
    };
    let mut nontrivial = false;
    for (k, (b, d)) in bs.iter().zip(ds.iter()).enumerate() {
        let is_dumped = j.dumped.as_ref().map(|v| v.contains(&k)).unwrap_or(true);
        match (b, d, is_dumped) {
            (Slot::Impls(_), Slot::Error(m), true) => {
                nontrivial = true;
                if let Err(e) = check_dump_message(m, &b.flat()) {
                    problems.push(("dump-text-differs".into(), format!("trait #{k} {}: {e}", s.traits[k])));
                }
            }
            (Slot::Impls(_), Slot::Impls(_), true) => problems.push(("dump-ignored".into(), format!("trait #{k} {} still generates its impl although dump was requested", s.traits[k]))),
            (Slot::Error(m1), Slot::Error(m2), _) => {
                if m1 != m2 {
                    problems.push(("error-changed-by-dump".into(), format!("trait #{k} {}: `{}` vs `{}`", s.traits[k], m2.lines().next().unwrap_or(""), m1.lines().next().unwrap_or(""))));
                }
            }
            (_, _, false) => {
                if b.flat() != d.flat() {
                    problems.push(("other-trait-changed-by-dump".into(), format!("trait #{k} {} was not dumped but its output changed", s.traits[k])));
                }
            }
            (Slot::Error(_), Slot::Impls(_), true) => problems.push(("error-lost-with-dump".into(), format!("trait #{k} {}", s.traits[k]))),
        }
    }
    Res { problems, nontrivial, skipped: false }
}

pub fn run(ctx: &Ctx, rep: &mut Report) {
    let thorough = ctx.tier.is_thorough();
    rep.rule = "terminal state = (seed item from the generators and the test-suite/documentation corpus, entry point, dump placement in {shared, on each single trait, on first+last trait, on an impl item}); distinct by (attribute, item) text; non-trivial = at least one trait's impl was replaced by a dump error whose text was compared token for token".into();
    rep.assumptions = vec!["token comparison ignores spacing (flattened token sequences)".into()];
    let seeds = all_seeds(thorough);
    let mut jobs = Vec::new();
    for (si, s) in seeds.iter().enumerate() {
        if s.entry != Entry::Attr || s.traits.is_empty() {
            continue;
        }
        let ps = pieces(&s.attr);
        if ps.iter().any(|p| p.1.trim() == "dump") {
            continue;
        }
        let tpos: Vec<usize> = ps.iter().enumerate().filter(|(_, p)| !p.0.is_empty()).map(|(i, _)| i).collect();
        let entries: &[Entry] = if s.is_impl { &[Entry::Attr] } else { &Entry::BOTH };
        for &entry in entries {
            // shared
            jobs.push(Job { seed: si, entry, dumped: None, attr: format!("{}, dump", s.attr), item: None, frag: false });
            if s.is_impl {
                continue;
            }
            // two derive_ex lists of which only one carries the shared `dump`
            if tpos.len() >= 2 && tpos.len() == ps.len() {
                for cut in [1, tpos.len() - 1] {
                    let g1: Vec<String> = (0..cut).map(|k| ps[tpos[k]].1.clone()).collect();
                    let g2: Vec<String> = (cut..tpos.len()).map(|k| ps[tpos[k]].1.clone()).collect();
                    jobs.push(Job { seed: si, entry, dumped: Some((0..cut).collect()), attr: format!("{}, dump", g1.join(", ")), item: Some(format!("#[derive_ex({})] {}", g2.join(", "), s.item)), frag: false });
                    jobs.push(Job { seed: si, entry, dumped: Some((cut..tpos.len()).collect()), attr: g1.join(", "), item: Some(format!("#[derive_ex({}, dump)] {}", g2.join(", "), s.item)), frag: false });
                }
            }
            // a per-trait dump on the first / last trait AND the shared dump: every trait is dumped (once)
            if !tpos.is_empty() && tpos.len() == ps.len() {
                for k in [0, tpos.len() - 1] {
                    let attr: Vec<String> = ps.iter().enumerate().map(|(i, p)| if tpos[k] == i { with_dump(&p.1) } else { p.1.clone() }).collect();
                    jobs.push(Job { seed: si, entry, dumped: None, attr: format!("{}, dump", attr.join(", ")), item: None, frag: false });
                }
            }
            let mut sets: Vec<Vec<usize>> = (0..tpos.len()).map(|k| vec![k]).collect();
            if tpos.len() >= 3 {
                sets.push(vec![0, tpos.len() - 1]);
            }
            if tpos.len() >= 2 && thorough {
                sets.push((1..tpos.len()).collect());
            }
            for set in sets {
                let attr: Vec<String> = ps.iter().enumerate().map(|(i, p)| match tpos.iter().position(|&x| x == i) { Some(k) if set.contains(&k) => with_dump(&p.1), _ => p.1.clone() }).collect();
                jobs.push(Job { seed: si, entry, dumped: Some(set), attr: attr.join(", "), item: None, frag: false });
            }
        }
    }
    // every placement once more with fragment groups in the item
    let with_frag: Vec<Job> = jobs.iter().map(|j| Job { frag: true, ..j.clone() }).collect();
    jobs.extend(with_frag);
    if let Some(p) = &ctx.replay {
        let v: serde_json::Value = serde_json::from_str(&std::fs::read_to_string(p).expect("replay file")).expect("replay json");
        let (a, i, e) = (v["case"]["attr"].as_str().unwrap_or("").to_string(), v["case"]["item"].as_str().unwrap_or("").to_string(), v["case"]["entry"].as_str().unwrap_or("").to_string());
        jobs.retain(|j| j.attr == a && j.item.as_deref().unwrap_or(&seeds[j.seed].item) == i && j.entry.name() == e);
    }
    rep.stats.states = 1 + seeds.len() as u64 + jobs.len() as u64;
    rep.stats.transitions = seeds.len() as u64 + jobs.len() as u64;
    rep.stats.terminals = jobs.len() as u64;
    let res = par_map(&jobs, threads(), |_, j| run_job(&seeds, j));
    for (j, r) in jobs.iter().zip(res.iter()) {
        let s = &seeds[j.seed];
        let text = format!("{}{} #[derive_ex({})] {}", j.entry.name(), if j.frag { " [fragment groups]" } else { "" }, j.attr, j.item.as_deref().unwrap_or(&s.item));
        rep.case(&text, r.nontrivial);
        if r.skipped {
            rep.outcome("skipped:baseline-not-per-trait");
            continue;
        }
        rep.outcome(if r.problems.is_empty() { "dump-equals-generated-code" } else { "problem" });
        for (sym, what) in &r.problems {
            let mut atoms = BTreeSet::new();
            atoms.insert(format!("entry={}", j.entry.name()));
            atoms.insert(format!("placement={}", match &j.dumped { None => "shared".to_string(), Some(v) => format!("per-trait{:?}", v) }));
            atoms.insert(format!("origin={}", s.origin));
            atoms.insert(format!("fragment_groups={}", j.frag));
            rep.violation(Violation { symptom: sym.clone(), atoms, what: format!("#[derive_ex({})] {} via {}: {}", j.attr, s.item.chars().take(120).collect::<String>(), j.entry.name(), what), detail: json!({"entry": j.entry.name(), "attr": j.attr, "item": j.item.as_deref().unwrap_or(&s.item), "baseline_attr": s.attr}), standalone: None });
        }
        if r.problems.is_empty() && r.nontrivial && rep.samples.len() < 4 {
            rep.sample(json!({"entry": j.entry.name(), "attr": j.attr, "item": s.item, "origin": s.origin}));
        }
    }
    if ctx.replay.is_none() {
        let inputs: Vec<crate::conform::Input> = seeds.iter().filter(|s| !s.is_impl && !s.traits.is_empty() && !s.attr.contains("dump") && !s.item.contains("__FRAG")).flat_map(|s| Entry::BOTH.iter().map(move |&e| crate::conform::Input { entry: e, attr: s.attr.clone(), item: s.item.clone() })).collect();
        if rep.n_violations() == 0 {
            if let Err(e) = crate::conform::validate(rep, "c19p", &inputs) {
                // for C19 the dump round trip through real rustc IS the property
                rep.violation(Violation { symptom: "dump-through-rustc-differs-from-generated-code".into(), atoms: BTreeSet::new(), what: e.clone(), detail: json!({"observed": e}), standalone: None });
            }
        }
    }
    rep.set("seeds", json!(seeds.len()));
    rep.set("corpus_seeds", json!(seeds.iter().filter(|s| !s.origin.starts_with("gen:")).count()));
}
