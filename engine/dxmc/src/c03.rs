//! C03 — default bounds are exactly the used field types that mention a parameter.
//! Channel X: the set of instantiations the derived impl applies to is compared (by rustc's
//! own trait solver, through `impls!`) with that of a twin carrying a hand-written marker
//! impl whose where-clause is the reference W_ref; channel R: the generic impl type-checks.

use crate::expand::Entry;
use crate::explore::{explore, replay, Ch};
use crate::report::{Report, Violation};
use crate::runner;
use crate::Ctx;
use serde_json::json;
use std::collections::BTreeSet;

/// (type text, needs U, needs N, needs 'a, needs T: Tr, Default-value expression usable without bounds)
const TYPES: [(&str, bool, bool, bool, bool, &str); 19] = [
    ("T", false, false, false, false, ""),
    ("Option<T>", false, false, false, false, "None"),
    ("Vec<T>", false, false, false, false, "Vec::new()"),
    ("Box<T>", false, false, false, false, ""),
    ("Rc<T>", false, false, false, false, ""),
    ("PhantomData<T>", false, false, false, false, "PhantomData"),
    ("&'a T", false, false, true, false, ""),
    ("(T, U)", true, false, false, false, ""),
    ("[T; N]", false, true, false, false, ""),
    ("[u8; N]", false, true, false, false, "[0; N]"),
    ("T::Assoc", false, false, false, true, ""),
    ("i8", false, false, false, false, "7"),
    // the parameter spelled as a raw identifier
    ("Option<r#T>", false, false, false, false, "None"),
    // a type macro whose argument mentions the parameter
    ("opt!(T)", false, false, false, false, "None"),
    // a type macro that mentions the parameter only inside a delimited group of its argument
    ("grp!((T))", false, false, false, false, "None"),
    ("fn(T) -> U", true, false, false, false, ""),
    ("*const T", false, false, false, false, "::core::ptr::null()"),
    ("<T as Tr>::Assoc", false, false, false, true, ""),
    ("Option<Vec<T>>", false, false, false, false, "None"),
];

#[derive(Clone, Copy, PartialEq, Eq, Debug)]
enum Kind {
    Simple,
    Binary,
    Assign,
    Unary,
}

/// (trait to probe, derive list, kind, path)
const TRAITS: [(&str, &str, Kind, &str); 31] = [
    ("Clone", "Clone", Kind::Simple, "::core::clone::Clone"),
    ("Copy", "Copy, Clone", Kind::Simple, "::core::marker::Copy"),
    ("Debug", "Debug", Kind::Simple, "::core::fmt::Debug"),
    ("Default", "Default", Kind::Simple, "::core::default::Default"),
    ("PartialEq", "PartialEq", Kind::Simple, "::core::cmp::PartialEq"),
    ("Eq", "Eq, PartialEq", Kind::Simple, "::core::cmp::Eq"),
    ("PartialOrd", "PartialOrd, PartialEq", Kind::Simple, "::core::cmp::PartialOrd"),
    ("Ord", "Ord, PartialOrd, Eq, PartialEq", Kind::Simple, "::core::cmp::Ord"),
    ("Hash", "Hash", Kind::Simple, "::core::hash::Hash"),
    ("Add", "Add", Kind::Binary, "::core::ops::Add"),
    ("Shl", "Shl", Kind::Binary, "::core::ops::Shl"),
    ("SubAssign", "SubAssign", Kind::Assign, "::core::ops::SubAssign"),
    ("Neg", "Neg", Kind::Unary, "::core::ops::Neg"),
    ("Not", "Not", Kind::Unary, "::core::ops::Not"),
    // thorough only from here
    ("Sub", "Sub", Kind::Binary, "::core::ops::Sub"),
    ("Mul", "Mul", Kind::Binary, "::core::ops::Mul"),
    ("Div", "Div", Kind::Binary, "::core::ops::Div"),
    ("Rem", "Rem", Kind::Binary, "::core::ops::Rem"),
    ("BitAnd", "BitAnd", Kind::Binary, "::core::ops::BitAnd"),
    ("BitOr", "BitOr", Kind::Binary, "::core::ops::BitOr"),
    ("BitXor", "BitXor", Kind::Binary, "::core::ops::BitXor"),
    ("Shr", "Shr", Kind::Binary, "::core::ops::Shr"),
    ("AddAssign", "AddAssign", Kind::Assign, "::core::ops::AddAssign"),
    ("MulAssign", "MulAssign", Kind::Assign, "::core::ops::MulAssign"),
    ("DivAssign", "DivAssign", Kind::Assign, "::core::ops::DivAssign"),
    ("RemAssign", "RemAssign", Kind::Assign, "::core::ops::RemAssign"),
    ("BitAndAssign", "BitAndAssign", Kind::Assign, "::core::ops::BitAndAssign"),
    ("BitOrAssign", "BitOrAssign", Kind::Assign, "::core::ops::BitOrAssign"),
    ("BitXorAssign", "BitXorAssign", Kind::Assign, "::core::ops::BitXorAssign"),
    ("ShlAssign", "ShlAssign", Kind::Assign, "::core::ops::ShlAssign"),
    ("ShrAssign", "ShrAssign", Kind::Assign, "::core::ops::ShrAssign"),
];

#[derive(Clone, Copy, PartialEq, Eq, Debug)]
enum Unused {
    No,
    /// debug(ignore) / ord(ignore) / explicit default value
    Attr,
    /// comparison through `key = ..`
    Key,
    /// `#[eq(ignore)]` (PartialEq, Eq, Hash)
    EqAttr,
    /// `#[eq(key = ..)]` (PartialEq, Eq, Hash)
    EqKey,
}

#[derive(Clone, Debug)]
struct Case {
    vector: Vec<usize>,
    tr: usize,
    /// 0 tuple struct, 1 named struct, 2 enum { A(f0), B { rest } }, 3 struct whose field 0 is debug(transparent),
    /// 4 tuple struct with a type-level #[default(Self::mk())] (no field is used)
    container: usize,
    fields: Vec<(usize, Unused)>,
    entry: Entry,
    /// declared where-clause `where T: Marker` on the definition
    declared_where: bool,
    /// the parameter is declared `T: ?Sized` and the last field is a bare `T`
    unsized_t: bool,
    const_first: bool,
}

fn is_cmp(t: &str) -> bool {
    matches!(t, "PartialEq" | "Eq" | "PartialOrd" | "Ord" | "Hash")
}

fn gen(ch: &mut Ch, thorough: bool) -> Option<Case> {
    let ntr = if thorough { TRAITS.len() } else { 14 };
    let tr = ch.pick(ntr);
    let (tname, _, kind, _) = TRAITS[tr];
    let container = ch.pick(5);
    if container >= 2 && kind != Kind::Simple {
        return None;
    }
    if container == 3 && tname != "Debug" {
        return None;
    }
    if container == 4 && tname != "Default" {
        return None;
    }
    let n = 1 + ch.pick(if thorough { 3 } else { 2 });
    let ntypes = if thorough { TYPES.len() } else { 15 };
    let mut fields = Vec::new();
    for i in 0..n {
        let ty = ch.pick(ntypes);
        let u = *ch.of(&[Unused::No, Unused::Attr, Unused::Key, Unused::EqAttr, Unused::EqKey]);
        match u {
            Unused::No => {}
            Unused::Attr => {
                if !(tname == "Debug" || is_cmp(tname) || (tname == "Default" && !TYPES[ty].5.is_empty())) {
                    return None;
                }
                if container == 3 && i == 0 {
                    return None;
                }
            }
            Unused::Key => {
                if !is_cmp(tname) {
                    return None;
                }
            }
            Unused::EqAttr | Unused::EqKey => {
                if !matches!(tname, "PartialEq" | "Eq" | "Hash") {
                    return None;
                }
            }
        }
        fields.push((ty, u));
    }
    // with 3 fields: a reduced type alphabet and at most one unused field
    if n == 3 && (fields.iter().filter(|f| f.1 != Unused::No).count() > 1 || fields.iter().any(|f| !matches!(f.0, 0 | 1 | 5 | 7 | 11))) {
        return None;
    }
    let declared_where = ch.flag();
    let entry = *ch.of(&Entry::BOTH);
    if (entry == Entry::Derive || declared_where) && n > 1 {
        return None;
    }
    // T must be mentioned
    if !fields.iter().any(|f| mentions(TYPES[f.0].0, "T")) {
        return None;
    }
    let unsized_t = ch.flag();
    if unsized_t {
        let last_is_t = fields.last().map(|f| f.0 == 0).unwrap_or(false);
        let others_ok = fields[..fields.len() - 1].iter().all(|f| matches!(TYPES[f.0].0, "Box<T>" | "Rc<T>" | "PhantomData<T>" | "&'a T" | "i8" | "*const T"));
        if !(last_is_t && others_ok && container <= 1 && !declared_where && matches!(tname, "Debug" | "PartialEq" | "Eq" | "PartialOrd" | "Ord" | "Hash")) {
            return None;
        }
    }
    // the const parameter declared BEFORE the type parameters (`<'a, const N: usize, T, U>`)
    let const_first = ch.flag();
    if const_first && !(fields.iter().any(|f| TYPES[f.0].2) && entry == Entry::Attr && !declared_where && !unsized_t) {
        return None;
    }
    Some(Case { vector: ch.vector(), tr, container, fields, entry, declared_where, unsized_t, const_first })
}

fn mentions(ty: &str, p: &str) -> bool {
    let b: Vec<char> = ty.chars().collect();
    let pc: Vec<char> = p.chars().collect();
    for i in 0..b.len() {
        if b[i..].starts_with(&pc) {
            let prev_ok = i == 0 || !(b[i - 1].is_alphanumeric() || b[i - 1] == '_' || b[i - 1] == '\'');
            let j = i + pc.len();
            let next_ok = j >= b.len() || !(b[j].is_alphanumeric() || b[j] == '_');
            if prev_ok && next_ok {
                return true;
            }
        }
    }
    false
}

struct Built {
    twin_only: String,
    full: String,
    text: String,
    nprobes: usize,
}

fn build(c: &Case) -> Built {
    let (tname, list, kind, path) = TRAITS[c.tr];
    let needs_u = c.fields.iter().any(|f| TYPES[f.0].1);
    let needs_n = c.fields.iter().any(|f| TYPES[f.0].2);
    let needs_a = c.fields.iter().any(|f| TYPES[f.0].3);
    let needs_tr = c.fields.iter().any(|f| TYPES[f.0].4);
    let mut params: Vec<String> = Vec::new();
    let mut args_names: Vec<String> = Vec::new();
    if needs_a {
        params.push("'a".into());
        args_names.push("'a".into());
    }
    params.push(if needs_tr { "T: Tr".into() } else if c.unsized_t { "T: ?Sized".into() } else { "T".into() });
    args_names.push("T".into());
    if needs_u {
        params.push("U".into());
        args_names.push("U".into());
    }
    if needs_n {
        let at = if c.const_first { needs_a as usize } else { params.len() };
        params.insert(at, "const N: usize".into());
        args_names.insert(at, "N".into());
    }
    let decl = format!("<{}>", params.join(", "));
    let args = format!("<{}>", args_names.join(", "));
    let wh = if c.declared_where { "where T: Marker" } else { "" };
    // used fields and attributes
    let is_default_enum = c.container == 2 && tname == "Default";
    let mut used: Vec<bool> = Vec::new();
    let mut attrs: Vec<String> = Vec::new();
    for (i, (ty, u)) in c.fields.iter().enumerate() {
        let mut a = String::new();
        let mut us = true;
        match u {
            Unused::No => {}
            Unused::Attr => {
                us = false;
                a = if tname == "Debug" { "#[debug(ignore)]".into() } else if tname == "Default" { format!("#[default({})]", TYPES[*ty].5) } else { "#[ord(ignore)]".into() };
            }
            Unused::Key => {
                us = false;
                a = "#[ord(key = ::core::mem::size_of_val(&$))]".into();
            }
            Unused::EqAttr => {
                us = false;
                a = "#[eq(ignore)]".into();
            }
            Unused::EqKey => {
                us = false;
                a = "#[eq(key = ::core::mem::size_of_val(&$))]".into();
            }
        }
        if c.container == 3 {
            // field 0 is transparent: every other field is unused
            if i == 0 {
                a = "#[debug(transparent)]".into();
            } else {
                us = false;
            }
        }
        if is_default_enum && i > 0 {
            us = false; // outside the default variant
        }
        if c.container == 4 {
            us = false; // the type-level value is used, no field default is
        }
        used.push(us);
        attrs.push(a);
    }
    let body = |with_attrs: bool, name: &str| -> String {
        let f = |i: usize| format!("{} {}", if with_attrs { attrs[i].as_str() } else { "" }, TYPES[c.fields[i].0].0).trim().to_string();
        let nf = |i: usize| format!("{} {}: {}", if with_attrs { attrs[i].as_str() } else { "" }, crate::gen::fname(i), TYPES[c.fields[i].0].0).trim().to_string();
        let n = c.fields.len();
        match c.container {
            0 | 3 => format!("pub struct {name}{decl}({}) {wh};", (0..n).map(f).collect::<Vec<_>>().join(", ")),
            4 => format!("{}pub struct {name}{decl}({}) {wh};", if with_attrs { "#[default(Self::mk())] " } else { "" }, (0..n).map(f).collect::<Vec<_>>().join(", ")),
            1 => format!("pub struct {name}{decl} {wh} {{ {} }}", (0..n).map(nf).collect::<Vec<_>>().join(", ")),
            _ => {
                let d = if with_attrs && tname == "Default" { "#[default] " } else { "" };
                if n == 1 {
                    format!("pub enum {name}{decl} {wh} {{ {d}A({}), B }}", f(0))
                } else {
                    format!("pub enum {name}{decl} {wh} {{ {d}A({}), B {{ {} }} }}", f(0), (1..n).map(nf).collect::<Vec<_>>().join(", "))
                }
            }
        }
    };
    // forms: (marker, probed self type, probed trait, predicate on a field type)
    let s_ty = |n: &str, inst: &str| format!("{n}{inst}");
    let forms: Vec<(String, Box<dyn Fn(&str) -> String>, Box<dyn Fn(&str) -> String>, Box<dyn Fn(&str) -> String>)> = match kind {
        Kind::Simple => vec![("Mk0".into(), Box::new(|s: &str| s.to_string()), Box::new(move |_s: &str| path.to_string()), Box::new(move |f: &str| format!("{f}: {path}")))],
        Kind::Binary => {
            let mut v: Vec<(String, Box<dyn Fn(&str) -> String>, Box<dyn Fn(&str) -> String>, Box<dyn Fn(&str) -> String>)> = Vec::new();
            for (l, r) in [(false, false), (false, true), (true, false), (true, true)] {
                v.push((
                    format!("Mk{}{}", l as u8, r as u8),
                    Box::new(move |s: &str| if l { format!("&'static {s}") } else { s.to_string() }),
                    Box::new(move |s: &str| format!("{path}<{}{s}>", if r { "&'static " } else { "" })),
                    Box::new(move |f: &str| format!("for<'x> {}{f}: {path}<{}{f}, Output = {f}>", if l { "&'x " } else { "" }, if r { "&'x " } else { "" })),
                ));
            }
            v
        }
        Kind::Assign => {
            let mut v: Vec<(String, Box<dyn Fn(&str) -> String>, Box<dyn Fn(&str) -> String>, Box<dyn Fn(&str) -> String>)> = Vec::new();
            for r in [false, true] {
                v.push((format!("Mk{}", r as u8), Box::new(|s: &str| s.to_string()), Box::new(move |s: &str| format!("{path}<{}{s}>", if r { "&'static " } else { "" })), Box::new(move |f: &str| format!("for<'x> {f}: {path}<{}{f}>", if r { "&'x " } else { "" }))));
            }
            v
        }
        Kind::Unary => {
            let mut v: Vec<(String, Box<dyn Fn(&str) -> String>, Box<dyn Fn(&str) -> String>, Box<dyn Fn(&str) -> String>)> = Vec::new();
            for l in [false, true] {
                v.push((format!("Mk{}", l as u8), Box::new(move |s: &str| if l { format!("&'static {s}") } else { s.to_string() }), Box::new(move |_s: &str| path.to_string()), Box::new(move |f: &str| format!("for<'x> {}{f}: {path}<Output = {f}>", if l { "&'x " } else { "" }))));
            }
            v
        }
    };
    // instantiations
    // Tie: like Yes, but its `&Tie op &Tie` impls tie both operands to ONE lifetime
    let t_dom: Vec<&str> = if needs_tr { vec!["Yes", "AY", "AN"] } else if kind != Kind::Simple { vec!["Yes", "No", "Own", "Tie"] } else if c.unsized_t { vec!["Yes", "No", "str", "dyn Marker"] } else { vec!["Yes", "No"] };
    let t_dom: Vec<&str> = if c.declared_where { t_dom.into_iter().filter(|t| matches!(*t, "Yes" | "Own" | "AN" | "Tie")).collect() } else { t_dom };
    let u_dom: Vec<&str> = if needs_u { vec!["Yes", "No"] } else { vec![""] };
    let mut insts: Vec<String> = Vec::new();
    for t in &t_dom {
        for u in &u_dom {
            let mut a: Vec<String> = Vec::new();
            if needs_a {
                a.push("'static".into());
            }
            a.push(t.to_string());
            if needs_u {
                a.push(u.to_string());
            }
            if needs_n {
                let at = if c.const_first { needs_a as usize } else { a.len() };
                a.insert(at, "2".into());
            }
            insts.push(format!("<{}>", a.join(", ")));
        }
    }
    let prelude = "use derive_ex::{derive_ex, Ex};\nuse dxrt::impls;\nuse dxrt::probe::*;\nuse ::core::marker::PhantomData;\nuse ::std::rc::Rc;\n#[allow(unused_macros)] macro_rules! opt { ($t:ty) => { ::core::option::Option<$t> }; }\n#[allow(unused_macros)] macro_rules! grp { (($t:ty)) => { ::core::option::Option<$t> }; }\n";
    let mut twin = String::new();
    twin.push_str(prelude);
    twin.push_str(&body(false, "Y"));
    twin.push('\n');
    for (mk, _, _, pred) in &forms {
        let mut preds: Vec<String> = Vec::new();
        if needs_tr {
            // inline bound already in decl
        }
        if c.declared_where {
            preds.push("T: Marker".into());
        }
        for (i, (ty, _)) in c.fields.iter().enumerate() {
            let f = TYPES[*ty].0;
            if used[i] && (mentions(f, "T") || mentions(f, "U") || mentions(f, "N")) {
                preds.push(pred(f));
            }
        }
        let w = if preds.is_empty() { String::new() } else { format!("where {}", preds.join(", ")) };
        twin.push_str(&format!("pub trait {mk} {{}}\nimpl{decl} {mk} for Y{args} {w} {{}}\n"));
    }
    let twin_only = twin.clone();
    let head = match c.entry {
        Entry::Attr => format!("#[derive_ex({list})]"),
        Entry::Derive => format!("#[derive(Ex)]\n#[derive_ex({list})]"),
    };
    let mut full = twin;
    full.push_str(&format!("{head}\n{}\n", body(true, "X")));
    if c.container == 4 {
        full.push_str(&format!("impl{decl} X{args} {wh} {{ pub fn mk() -> Self {{ loop {{}} }} }}\n"));
    }
    full.push_str("pub fn run() -> String {\n    let mut a = String::new();\n    let mut b = String::new();\n");
    let mut nprobes = 0;
    for inst in &insts {
        for (mk, selff, trf, _) in &forms {
            let sx = s_ty("X", inst);
            full.push_str(&format!("    a.push(if impls!({}: {}) {{ '1' }} else {{ '0' }});\n", selff(&sx), trf(&sx)));
            full.push_str(&format!("    b.push(if impls!(Y{inst}: {mk}) {{ '1' }} else {{ '0' }});\n"));
            nprobes += 1;
        }
    }
    full.push_str("    format!(\"{}|{}\", a, b)\n}\n");
    let _ = tname;
    Built { twin_only, full, text: format!("{} {} {}", c.entry.name(), list, body(true, "X")), nprobes }
}

pub fn run(ctx: &Ctx, rep: &mut Report) {
    let thorough = ctx.tier.is_thorough();
    rep.rule = "terminal state = (trait form [9 plain traits, binary operators in 4 reference forms, assign in 2, unary in 2], container in {tuple struct, named struct, enum with a default / non-default variant, struct with a debug(transparent) field}, 1..3 fields each with a type from a grammar over the parameters [T, Option<T>, Vec<T>, Box<T>, Rc<T>, PhantomData<T>, &'a T, (T,U), [T;N], [u8;N], T::Assoc, i8, Option<r#T>, opt!(T) [a type macro], fn(T)->U, *const T, <T as Tr>::Assoc, Option<Vec<T>>] and used or made unused by {debug(ignore), ord(ignore), eq(ignore), explicit default value, ord(key = ..), eq(key = ..), non-default variant, non-transparent field}, declared where-clause or not, entry point); inner enumeration = every instantiation of the parameters by probe types implementing chosen subsets of the traits / operator forms x every form; distinct by program text; non-trivial = the probe matrix contains both applicable and non-applicable instantiations".into();
    rep.assumptions = vec!["reference W_ref = declared predicates + {FieldTy: trait-form | field used and FieldTy mentions a type or const parameter}, written as the where-clause of a marker impl on a twin type; rustc's trait solver evaluates both sides (impls! probe), so a differently written but equivalent where-clause is not an alarm".into(), "twins that do not compile on their own are skipped (counted); if the twin compiles, the derive_ex program must compile as well".into()];
    let mut cases: Vec<Case> = Vec::new();
    if let Some(p) = &ctx.replay {
        let v: serde_json::Value = serde_json::from_str(&std::fs::read_to_string(p).expect("replay file")).expect("replay json");
        let vec: Vec<usize> = v["case"]["vector"].as_array().unwrap().iter().map(|x| x.as_u64().unwrap() as usize).collect();
        let th = v["case"]["tier"] == "thorough";
        cases.push(replay(|ch| gen(ch, th), &vec).unwrap_or_else(|| crate::report::machinery("replayed vector is pruned")));
    } else {
        let st = explore(|ch| gen(ch, thorough), |_, c| cases.push(c));
        rep.stats.add(&st);
    }
    let built: Vec<Built> = cases.iter().map(build).collect();
    let mut twin_keys: Vec<String> = built.iter().map(|b| b.twin_only.clone()).collect();
    twin_keys.sort();
    twin_keys.dedup();
    let twin_res = runner::run_cases(&twin_keys.iter().map(|t| runner::Case { code: t.clone() }).collect::<Vec<_>>(), &runner::Opts::check("c03t"));
    let twin_ok: std::collections::BTreeMap<&String, bool> = twin_keys.iter().zip(twin_res.iter()).map(|(k, r)| (k, r.compiled())).collect();
    let idx: Vec<usize> = (0..cases.len()).filter(|&i| twin_ok[&built[i].twin_only]).collect();
    rep.set("skipped_twin_does_not_compile", json!(cases.len() - idx.len()));
    if let Some(i) = (0..cases.len()).find(|&i| !twin_ok[&built[i].twin_only]) {
        let k = twin_keys.iter().position(|t| t == &built[i].twin_only).unwrap();
        rep.set("first_skipped_twin", json!({"program": built[i].twin_only, "errors": twin_res[k].errors().iter().map(|e| format!("{} {}", e.code, runner::first_line(&e.message))).collect::<Vec<_>>()}));
    }
    let mut o = runner::Opts::run("c03");
    o.per_file = 80;
    let res = runner::run_cases(&idx.iter().map(|&i| runner::Case { code: built[i].full.clone() }).collect::<Vec<_>>(), &o);
    for (k, &i) in idx.iter().enumerate() {
        let c = &cases[i];
        let b = &built[i];
        let r = &res[k];
        rep.validated += 1;
        let mut atoms = BTreeSet::new();
        atoms.insert(format!("trait={}", TRAITS[c.tr].0));
        atoms.insert(format!("entry={}", c.entry.name()));
        atoms.insert(format!("container={}", c.container));
        for (ty, u) in &c.fields {
            atoms.insert(format!("fieldty={}", TYPES[*ty].0));
            atoms.insert(format!("field={}/{:?}", TYPES[*ty].0, u));
        }
        let detail = json!({"vector": c.vector, "tier": ctx.tier.name(), "what": b.text, "program": b.full});
        if !r.compiled() {
            rep.case(&b.text, true);
            rep.outcome(&format!("does-not-compile:{}", r.codes()));
            atoms.insert(format!("group={}", r.codes()));
            rep.violation(Violation { symptom: format!("generated-impl-does-not-type-check:{}", r.codes()), atoms, what: format!("{}: {}", b.text, r.errors().iter().map(|e| format!("{} {}", e.code, runner::first_line(&e.message))).collect::<Vec<_>>().join(" | ")), detail, standalone: Some(format!("mod case {{\n{}\n}}\nfn main() {{}}\n", b.full)) });
            continue;
        }
        let got = r.output.clone().unwrap_or_default();
        let mut it = got.splitn(2, '|');
        let (a, bb) = (it.next().unwrap_or("").to_string(), it.next().unwrap_or("").to_string());
        rep.inner_evaluations += b.nprobes as u64;
        let nontrivial = a.contains('0') && a.contains('1');
        rep.case(&b.text, nontrivial);
        if a.len() != b.nprobes || a != bb {
            rep.outcome("applicability-differs");
            rep.violation(Violation { symptom: "impl-applies-to-different-instantiations".into(), atoms, what: format!("{}: the derived impl applies to instantiations {a}, the reference where-clause to {bb} (one bit per instantiation x form)", b.text), detail, standalone: Some(format!("mod case {{\n{}\n}}\nfn main() {{ let r = case::run(); let mut i = r.split('|'); assert_eq!(i.next(), i.next()); }}\n", b.full)) });
        } else {
            rep.outcome(if nontrivial { "same-applicability:mixed" } else if a.contains('1') { "same-applicability:always" } else { "same-applicability:never" });
            if rep.samples.len() < 5 && nontrivial && c.fields.len() >= 2 {
                rep.sample(json!({"case": b.text, "applicability_bits": a}));
            }
        }
    }
    // declared bounds mentioning `Self` (cannot be instantiated by the probe, so: the generic impl must type-check)
    if ctx.replay.is_none() {
        let ntr = if thorough { TRAITS.len() } else { 14 };
        let mut progs: Vec<(String, String)> = Vec::new();
        for (tname, list, kind, _) in TRAITS.iter().take(ntr) {
            for (shape, is_enum) in [("pub struct X<T>(pub T, pub Option<T>) where Self: Marker, Option<Self>: Marker;", false), ("pub struct X<T: PartialEq<Vec<Self>>> { pub a: T }", false), ("pub enum X<T> where Self: Marker { #[default] A, B(T) }", true), ("pub struct X<T>(pub T) where Self: Tr, <Self as Tr>::Assoc: Marker;", false)] {
                if is_enum && *kind != Kind::Simple {
                    continue;
                }
                let item = if *tname == "Default" || !is_enum { shape.to_string() } else { shape.replace("#[default] ", "") };
                for entry in Entry::BOTH {
                    let head = match entry {
                        Entry::Attr => format!("#[derive_ex({list})]"),
                        Entry::Derive => format!("#[derive(Ex)]\n#[derive_ex({list})]"),
                    };
                    progs.push((format!("{} {} {}", entry.name(), list, item), format!("use derive_ex::{{derive_ex, Ex}};\nuse dxrt::probe::*;\n{head}\n{item}\n")));
                }
            }
        }
        let res = runner::run_cases(&progs.iter().map(|p| runner::Case { code: p.1.clone() }).collect::<Vec<_>>(), &runner::Opts::check("c03s"));
        for (p, r) in progs.iter().zip(res.iter()) {
            rep.stats.states += 1;
            rep.stats.transitions += 1;
            rep.stats.terminals += 1;
            rep.validated += 1;
            rep.case(&p.0, true);
            if !r.compiled() {
                let mut atoms = BTreeSet::new();
                atoms.insert("declared=Self".to_string());
                atoms.insert(format!("group={}", r.codes()));
                rep.violation(Violation { symptom: format!("generated-impl-does-not-type-check:{}", r.codes()), atoms, what: format!("{}: {}", p.0, r.errors().iter().map(|e| format!("{} {}", e.code, runner::first_line(&e.message))).collect::<Vec<_>>().join(" | ")), detail: json!({"kind": "declared-self", "what": p.0, "program": p.1}), standalone: Some(format!("mod case {{\n{}\n}}\nfn main() {{}}\n", p.1)) });
            } else {
                rep.outcome("declared-Self-bounds:compiles");
            }
        }
    }
    rep.set("rustc_invocations", json!(runner::STATS.rustc_invocations.load(std::sync::atomic::Ordering::Relaxed)));
}
