//! Shared driver for channel-X checks whose oracle is "the observation string printed by the
//! generated program equals the string the reference computes": compile + run all cases,
//! compare segment-wise (segments are separated by ';').

use crate::report::{Report, Violation};
use crate::runner;
use serde_json::{json, Value};
use std::collections::BTreeSet;

pub struct XCase {
    /// canonical text (distinctness)
    pub text: String,
    /// module body with `pub fn run() -> String`
    pub code: String,
    pub expected: String,
    pub atoms: BTreeSet<String>,
    pub nontrivial: bool,
    pub detail: Value,
    pub what: String,
    /// number of inner evaluations (values / pairs / format specs) this case performs
    pub inner: u64,
    /// symptom to report on mismatch
    pub symptom: String,
    /// if true, a program that does not compile is itself a violation of this property
    pub must_compile: bool,
}

pub fn first_bad_segment(got: &str, want: &str) -> (usize, String, String) {
    let g: Vec<&str> = got.split(';').collect();
    let w: Vec<&str> = want.split(';').collect();
    for i in 0..g.len().max(w.len()) {
        let a = g.get(i).copied().unwrap_or("<missing>");
        let b = w.get(i).copied().unwrap_or("<missing>");
        if a != b {
            return (i, a.to_string(), b.to_string());
        }
    }
    (0, String::new(), String::new())
}

pub fn run_and_compare(rep: &mut Report, label: &str, cases: &[XCase]) {
    let rcases: Vec<runner::Case> = cases.iter().map(|c| runner::Case { code: c.code.clone() }).collect();
    let res = runner::run_cases(&rcases, &runner::Opts::run(label));
    for (c, r) in cases.iter().zip(res.iter()) {
        let mut d = c.detail.clone();
        if !r.compiled() {
            rep.case(&c.text, false);
            if c.must_compile {
                d["rustc"] = json!(r.errors().iter().map(|e| format!("{} {}", e.code, runner::first_line(&e.message))).collect::<Vec<_>>());
                let mut atoms = c.atoms.clone();
                atoms.insert(format!("rustc={}", r.codes()));
                rep.violation(Violation { symptom: format!("does-not-compile:{}", r.codes()), atoms, what: format!("{}: rustc rejects the program: {}", c.what, r.errors().iter().map(|e| format!("{} {}", e.code, runner::first_line(&e.message))).collect::<Vec<_>>().join(" | ")), detail: d, standalone: Some(format!("// module body of the failing case\n{}", c.code)) });
            } else {
                rep.add("unobservable_rustc_rejects_accepted_expansion(C20)", 1);
                rep.outcome(&format!("unobservable:{}", r.codes()));
                if rep.extra.get("first_unobservable").is_none() {
                    rep.set("first_unobservable", json!({"what": c.what, "rustc": r.errors().iter().map(|e| format!("{} {}", e.code, runner::first_line(&e.message))).collect::<Vec<_>>()}));
                }
            }
            continue;
        }
        rep.validated += 1;
        rep.inner_evaluations += c.inner;
        if let Some(p) = &r.panicked {
            rep.case(&c.text, false);
            d["panic"] = json!(p);
            rep.violation(Violation { symptom: "panic".into(), atoms: c.atoms.clone(), what: format!("{}: {}", c.what, p), detail: d, standalone: Some(format!("// module body of the failing case\n{}", c.code)) });
            continue;
        }
        let got = r.output.clone().unwrap_or_default();
        rep.case(&c.text, c.nontrivial);
        if got != c.expected {
            let (i, a, b) = first_bad_segment(&got, &c.expected);
            d["observed"] = json!(got);
            d["expected"] = json!(c.expected);
            rep.violation(Violation { symptom: c.symptom.clone(), atoms: c.atoms.clone(), what: format!("{}: observation #{i} is `{a}`, reference says `{b}`", c.what), detail: d, standalone: Some(format!("// module body of the failing case; expected run() == {:?}\n{}", c.expected, c.code)) });
        } else {
            rep.outcome("agrees-with-reference");
            if rep.samples.len() < 4 && c.nontrivial {
                rep.sample(json!({"case": c.what, "program": c.text, "observation": got.chars().take(300).collect::<String>()}));
            }
        }
    }
    rep.set("rustc_invocations", json!(runner::STATS.rustc_invocations.load(std::sync::atomic::Ordering::Relaxed)));
}
