//! Channel E: call the repository's own `derive_ex` / `derive_ex_derive` entry functions
//! in-process (DESIGN.md 1.1, 2) and take the output apart.

use proc_macro2::{Delimiter, TokenStream, TokenTree};
use std::panic::{catch_unwind, AssertUnwindSafe};
use std::str::FromStr;

#[derive(Clone, Copy, Debug, PartialEq, Eq, Hash, PartialOrd, Ord)]
pub enum Entry {
    Attr,
    Derive,
}
impl Entry {
    pub const BOTH: [Entry; 2] = [Entry::Attr, Entry::Derive];
    pub fn name(self) -> &'static str {
        match self {
            Entry::Attr => "attr",
            Entry::Derive => "derive",
        }
    }
}

/// Install a silent panic hook once (expander panics are caught and reported as data).
pub fn silence_panics() {
    std::panic::set_hook(Box::new(|_| {}));
}

fn panic_msg(e: Box<dyn std::any::Any + Send>) -> String {
    if let Some(s) = e.downcast_ref::<&str>() {
        s.to_string()
    } else if let Some(s) = e.downcast_ref::<String>() {
        s.clone()
    } else {
        "<non-string panic>".into()
    }
}

pub fn lex(s: &str) -> Result<TokenStream, String> {
    TokenStream::from_str(s).map_err(|e| format!("lex error: {e}"))
}

thread_local! {
    static FRAGMENTS: std::cell::Cell<bool> = std::cell::Cell::new(false);
}
/// While set, the item handed to the expander carries invisible (`Delimiter::None`) groups, as if parts of it had
/// arrived as `macro_rules!` fragments: simple type names (`$t:ty`) and the value of every `by = ..` (`$f:expr`).
pub fn set_fragments(on: bool) {
    FRAGMENTS.with(|f| f.set(on));
}
fn fragmentize(ts: TokenStream) -> TokenStream {
    use proc_macro2::Group;
    let toks: Vec<TokenTree> = ts.into_iter().collect();
    let mut out: Vec<TokenTree> = Vec::new();
    let mut i = 0;
    while i < toks.len() {
        match &toks[i] {
            TokenTree::Ident(id) if id == "by" && matches!(toks.get(i + 1), Some(TokenTree::Punct(p)) if p.as_char() == '=') => {
                out.push(toks[i].clone());
                out.push(toks[i + 1].clone());
                let mut j = i + 2;
                let mut inner: Vec<TokenTree> = Vec::new();
                // up to the next argument of the helper attribute (a closure has commas of its own)
                let next_arg = |k: usize| matches!(&toks[k], TokenTree::Punct(p) if p.as_char() == ',') && matches!(toks.get(k + 1), Some(TokenTree::Ident(n)) if ["ignore", "reverse", "key", "bound"].iter().any(|a| n == a));
                while j < toks.len() && !next_arg(j) {
                    inner.push(toks[j].clone());
                    j += 1;
                }
                out.push(TokenTree::Group(Group::new(Delimiter::None, inner.into_iter().collect())));
                i = j;
            }
            TokenTree::Ident(id) if ["u8", "u16", "i32", "String", "V"].iter().any(|n| id == n) => {
                out.push(TokenTree::Group(Group::new(Delimiter::None, std::iter::once(toks[i].clone()).collect())));
                i += 1;
            }
            TokenTree::Group(g) => {
                let mut n = Group::new(g.delimiter(), fragmentize(g.stream()));
                n.set_span(g.span());
                out.push(TokenTree::Group(n));
                i += 1;
            }
            t => {
                out.push(t.clone());
                i += 1;
            }
        }
    }
    out.into_iter().collect()
}
/// `__FRAG(tokens)` in a seed text stands for `tokens` inside an invisible group, as a `macro_rules!` fragment arrives
fn defrag(ts: TokenStream) -> TokenStream {
    let toks: Vec<TokenTree> = ts.into_iter().collect();
    let mut out: Vec<TokenTree> = Vec::new();
    let mut i = 0;
    while i < toks.len() {
        match (&toks[i], toks.get(i + 1)) {
            (TokenTree::Ident(id), Some(TokenTree::Group(g))) if id == "__FRAG" && g.delimiter() == Delimiter::Parenthesis => {
                out.push(TokenTree::Group(proc_macro2::Group::new(Delimiter::None, defrag(g.stream()))));
                i += 2;
            }
            (TokenTree::Group(g), _) => {
                let mut n = proc_macro2::Group::new(g.delimiter(), defrag(g.stream()));
                n.set_span(g.span());
                out.push(TokenTree::Group(n));
                i += 1;
            }
            (t, _) => {
                out.push(t.clone());
                i += 1;
            }
        }
    }
    out.into_iter().collect()
}
fn lex_item(item: &str) -> Result<TokenStream, String> {
    let i = defrag(lex(item)?);
    Ok(if FRAGMENTS.with(|f| f.get()) { fragmentize(i) } else { i })
}

/// `#[derive_ex(<attr>)] <item>` through the attribute-macro entry point.
pub fn expand_attr(attr: &str, item: &str) -> Result<TokenStream, String> {
    let a = lex(attr)?;
    let i = lex_item(item)?;
    catch_unwind(AssertUnwindSafe(|| dxlib::derive_ex(a, i))).map_err(|e| format!("panic: {}", panic_msg(e)))
}

/// Like `expand_attr`, followed by what rustc does next: while the re-emitted item still carries an attribute
/// written with a path (`#[derive_ex::derive_ex(..)]`, `#[::derive_ex::derive_ex(..)]`) - which the first invocation
/// cannot recognise as its own sibling - that attribute is expanded in turn on the re-emitted item. The result is
/// the final item followed by the generated items in the order the lists were written.
pub fn expand_attr_iterated(attr: &str, item: &str) -> Result<TokenStream, String> {
    use quote::ToTokens;
    let mut ts = expand_attr(attr, item)?;
    for _ in 0..8 {
        let file: syn::File = match syn::parse2(ts.clone()) {
            Ok(f) => f,
            Err(_) => return Ok(ts),
        };
        let mut items = file.items;
        if items.is_empty() {
            return Ok(ts);
        }
        let mut first = items.remove(0);
        let attrs: &mut Vec<syn::Attribute> = match &mut first {
            syn::Item::Struct(x) => &mut x.attrs,
            syn::Item::Enum(x) => &mut x.attrs,
            _ => return Ok(ts),
        };
        let pos = attrs.iter().position(|a| {
            let segs: Vec<String> = a.path().segments.iter().map(|s| s.ident.to_string()).collect();
            segs == ["derive_ex", "derive_ex"]
        });
        let Some(pos) = pos else { return Ok(ts) };
        let a = attrs.remove(pos);
        let args: TokenStream = match &a.meta {
            syn::Meta::List(l) => l.tokens.clone(),
            _ => TokenStream::new(),
        };
        let inner_item = first.to_token_stream();
        let out = catch_unwind(AssertUnwindSafe(|| dxlib::derive_ex(args, inner_item))).map_err(|e| format!("panic: {}", panic_msg(e)))?;
        // final order: item, items generated earlier, items generated now
        let inner: syn::File = match syn::parse2(out.clone()) {
            Ok(f) => f,
            Err(e) => return Err(format!("nested expansion does not parse: {e}")),
        };
        let mut n = TokenStream::new();
        let mut it = inner.items.into_iter();
        if let Some(i0) = it.next() {
            n.extend(i0.to_token_stream());
        }
        for i in items {
            n.extend(i.to_token_stream());
        }
        for i in it {
            n.extend(i.to_token_stream());
        }
        ts = n;
    }
    Ok(ts)
}

/// `#[derive(Ex)] <item>` through the derive-macro entry point (`item` still carries its
/// `#[derive_ex(..)]` attributes, exactly as rustc hands it over).
pub fn expand_derive(item: &str) -> Result<TokenStream, String> {
    let i = lex_item(item)?;
    catch_unwind(AssertUnwindSafe(|| dxlib::derive_ex_derive(i))).map_err(|e| format!("panic: {}", panic_msg(e)))
}

/// Like `expand_derive`, followed by what rustc does with the item afterwards: under `#[derive(Ex)]` only the bare
/// `#[derive_ex(..)]` is an inert helper attribute; a list written with the crate path
/// (`#[derive_ex::derive_ex(..)]`) is an attribute-macro invocation that rustc expands on the item in its own right.
/// The result is what the derive generated followed by what those invocations generate (without the item).
pub fn expand_derive_iterated(item: &str) -> Result<TokenStream, String> {
    use quote::ToTokens;
    let mut out = expand_derive(item)?;
    let mut parsed: syn::Item = match lex_item(item).ok().and_then(|t| syn::parse2(t).ok()) {
        Some(i) => i,
        None => return Ok(out),
    };
    let attrs: &mut Vec<syn::Attribute> = match &mut parsed {
        syn::Item::Struct(x) => &mut x.attrs,
        syn::Item::Enum(x) => &mut x.attrs,
        _ => return Ok(out),
    };
    let pos = attrs.iter().position(|a| {
        let segs: Vec<String> = a.path().segments.iter().map(|s| s.ident.to_string()).collect();
        segs == ["derive_ex", "derive_ex"]
    });
    let Some(pos) = pos else { return Ok(out) };
    let a = attrs.remove(pos);
    let args: TokenStream = match &a.meta {
        syn::Meta::List(l) => l.tokens.clone(),
        _ => TokenStream::new(),
    };
    let rest = parsed.to_token_stream().to_string();
    let ts = expand_attr_iterated(&args.to_string(), &rest)?;
    let file: syn::File = syn::parse2(ts).map_err(|e| format!("expansion of the path-qualified list does not parse: {e}"))?;
    for i in file.items.into_iter().skip(1) {
        out.extend(i.to_token_stream());
    }
    Ok(out)
}

/// Flatten a token stream to a sequence of atoms, ignoring spacing / jointness.
pub fn flatten(ts: TokenStream) -> Vec<String> {
    let mut out = Vec::new();
    flatten_into(ts, &mut out);
    out
}
fn flatten_into(ts: TokenStream, out: &mut Vec<String>) {
    for t in ts {
        match t {
            TokenTree::Group(g) => {
                let (o, c) = match g.delimiter() {
                    Delimiter::Parenthesis => ("(", ")"),
                    Delimiter::Brace => ("{", "}"),
                    Delimiter::Bracket => ("[", "]"),
                    Delimiter::None => ("", ""),
                };
                if !o.is_empty() {
                    out.push(o.into());
                }
                flatten_into(g.stream(), out);
                if !c.is_empty() {
                    out.push(c.into());
                }
            }
            TokenTree::Ident(i) => out.push(i.to_string()),
            TokenTree::Punct(p) => out.push(p.as_char().to_string()),
            TokenTree::Literal(l) => out.push(l.to_string()),
        }
    }
}
pub fn flat_str(ts: TokenStream) -> String {
    flatten(ts).join(" ")
}
pub fn flat_of_str(s: &str) -> Result<String, String> {
    Ok(flat_str(lex(s)?))
}

#[derive(Clone, Debug)]
pub enum OutItem {
    /// the re-emitted struct / enum / user impl
    Item(syn::Item),
    /// a generated trait impl
    Impl { trait_name: String, item: syn::ItemImpl },
    /// `::core::compile_error!{ "msg" }`
    Error(String),
    /// the `const _: () = {..};` Eq checker or anything else
    Other(syn::Item),
}

impl OutItem {
    pub fn tokens(&self) -> TokenStream {
        use quote::ToTokens;
        match self {
            OutItem::Item(i) | OutItem::Other(i) => i.to_token_stream(),
            OutItem::Impl { item, .. } => item.to_token_stream(),
            OutItem::Error(m) => {
                let lit = proc_macro2::Literal::string(m);
                quote::quote!(::core::compile_error! { #lit })
            }
        }
    }
}

fn compile_error_of(m: &syn::ItemMacro) -> Option<String> {
    // only the absolute spelling counts: an unqualified `compile_error!` resolves to whatever macro of that name the
    // user has in scope, and the error (or the dump) silently disappears
    let segs: Vec<String> = m.mac.path.segments.iter().map(|s| s.ident.to_string()).collect();
    if m.mac.path.leading_colon.is_none() || segs != ["core", "compile_error"] {
        return None;
    }
    let lit: syn::LitStr = syn::parse2(m.mac.tokens.clone()).ok()?;
    Some(lit.value())
}

pub fn is_automatically_derived(i: &syn::ItemImpl) -> bool {
    i.attrs.iter().any(|a| a.path().is_ident("automatically_derived"))
}

/// Parse an expansion as a file and classify its items.  `has_item`: the attribute entry
/// re-emits the annotated item first.
pub fn parse_output(ts: TokenStream, has_item: bool) -> Result<Vec<OutItem>, String> {
    let file: syn::File = syn::parse2(ts.clone()).map_err(|e| format!("output does not parse as items: {e}"))?;
    let mut out = Vec::new();
    for (n, it) in file.items.into_iter().enumerate() {
        if n == 0 && has_item {
            out.push(OutItem::Item(it));
            continue;
        }
        match it {
            syn::Item::Macro(m) => match compile_error_of(&m) {
                Some(msg) => out.push(OutItem::Error(msg)),
                None => out.push(OutItem::Other(syn::Item::Macro(m))),
            },
            syn::Item::Impl(i) if i.trait_.is_some() => {
                let name = i.trait_.as_ref().unwrap().1.segments.last().map(|s| s.ident.to_string()).unwrap_or_default();
                out.push(OutItem::Impl { trait_name: name, item: i });
            }
            other => out.push(OutItem::Other(other)),
        }
    }
    Ok(out)
}

/// What one requested trait turned into.
#[derive(Clone, Debug)]
pub enum Slot {
    Impls(Vec<OutItem>),
    Error(String),
}
impl Slot {
    pub fn is_error(&self) -> bool {
        matches!(self, Slot::Error(_))
    }
    pub fn error(&self) -> Option<&str> {
        match self {
            Slot::Error(m) => Some(m),
            _ => None,
        }
    }
    pub fn tokens(&self) -> TokenStream {
        let mut ts = TokenStream::new();
        match self {
            Slot::Impls(v) => {
                for i in v {
                    ts.extend(i.tokens());
                }
            }
            Slot::Error(m) => ts.extend(OutItem::Error(m.clone()).tokens()),
        }
        ts
    }
    pub fn flat(&self) -> String {
        flat_str(self.tokens())
    }
}

#[derive(Clone, Debug)]
pub enum Aligned {
    /// one slot per requested trait, in listing order
    PerTrait(Vec<Slot>),
    /// derivation failed as a whole with a single error
    Whole(String),
}

/// Align the generated items (item excluded) with the requested trait list.
pub fn align(items: &[OutItem], traits: &[String]) -> Result<Aligned, String> {
    let gen: Vec<&OutItem> = items.iter().filter(|i| !matches!(i, OutItem::Item(_))).collect();
    let n_err = gen.iter().filter(|i| matches!(i, OutItem::Error(_))).count();
    let n_impl = gen.iter().filter(|i| matches!(i, OutItem::Impl { .. })).count();
    if n_err == 1 && n_impl == 0 && traits.len() != 1 {
        if let OutItem::Error(m) = gen.iter().find(|i| matches!(i, OutItem::Error(_))).unwrap() {
            return Ok(Aligned::Whole(m.clone()));
        }
    }
    let mut slots: Vec<Slot> = Vec::new();
    let mut p = 0usize;
    for it in gen {
        match it {
            OutItem::Error(m) => {
                if p >= traits.len() {
                    return Err(format!("more outputs than requested traits (extra error: {m})"));
                }
                slots.push(Slot::Error(m.clone()));
                p += 1;
            }
            OutItem::Impl { trait_name, .. } => {
                if p > 0 && &traits[p - 1] == trait_name {
                    if let Some(Slot::Impls(v)) = slots.last_mut() {
                        v.push(it.clone());
                        continue;
                    }
                }
                if p < traits.len() && &traits[p] == trait_name {
                    slots.push(Slot::Impls(vec![it.clone()]));
                    p += 1;
                } else {
                    return Err(format!("impl of `{trait_name}` appears at position {p} of list {traits:?} (impls must follow listing order)"));
                }
            }
            OutItem::Other(_) => match slots.last_mut() {
                Some(Slot::Impls(v)) => v.push(it.clone()),
                _ => return Err("stray non-impl item before any impl".into()),
            },
            OutItem::Item(_) => {}
        }
    }
    if p != traits.len() {
        return Err(format!("{} outputs for {} requested traits {:?}", p, traits.len(), traits));
    }
    Ok(Aligned::PerTrait(slots))
}

/// Convenience: expand through an entry point.  For `Entry::Derive` the `attr` is placed
/// as a `#[derive_ex(..)]` attribute in front of the item.
pub fn expand(entry: Entry, attr: &str, item: &str) -> Result<TokenStream, String> {
    match entry {
        Entry::Attr => expand_attr(attr, item),
        Entry::Derive => expand_derive(&format!("#[derive_ex({attr})] {item}")),
    }
}

pub fn expand_aligned(entry: Entry, attr: &str, item: &str, traits: &[String]) -> Result<(Vec<OutItem>, Aligned), String> {
    let ts = expand(entry, attr, item)?;
    let items = parse_output(ts, entry == Entry::Attr)?;
    let al = align(&items, traits)?;
    Ok((items, al))
}

/// Where-clause predicates of an impl, each flattened, as a sorted set.
pub fn where_set(i: &syn::ItemImpl) -> std::collections::BTreeSet<String> {
    use quote::ToTokens;
    let mut s = std::collections::BTreeSet::new();
    if let Some(w) = &i.generics.where_clause {
        for p in &w.predicates {
            s.insert(flat_str(p.to_token_stream()));
        }
    }
    s
}
