//! C02 — accepted attribute combinations give mutually coherent Eq/Ord/Hash impls.
//! Channel X, model-free laws on every pair / triple of a small domain (DESIGN.md 5/C02).

use crate::c01::{container_spec, Case};
use crate::cmpx::*;
use crate::expand::Entry;
use crate::explore::{explore, par_map, replay, threads, Ch};
use crate::gen::{Container, KeyForm, KeyStyle};
use crate::refmodel::*;
use crate::report::{Report, Violation};
use crate::runner;
use crate::Ctx;
use serde_json::json;
use std::collections::BTreeSet;

fn gen(ch: &mut Ch, thorough: bool) -> Option<Case> {
    use crate::gen::Ctx as C;
    let mut sets = vec![vec![Ord, PartialOrd, Eq, PartialEq, Hash]];
    sets.extend(closed_subsets().into_iter().filter(|s| s.len() < 5));
    let si = ch.pick(sets.len());
    let derived = sets[si].clone();
    let places: &[(Container, C)] = &[(Container::TupleStruct, C::FirstOf2), (Container::EnumNamedVariant, C::LastOf2)];
    let (container, ctx) = *ch.of(places);
    let entries: &[Entry] = if thorough && si == 0 { &Entry::BOTH } else { &[Entry::Attr] };
    let entry = *ch.of(entries);
    // quick: full alphabet on the all-five struct slice, reduced alphabet elsewhere
    let reduced = !thorough && !(si == 0 && container == Container::TupleStruct);
    // {PartialOrd, PartialEq} also with ONE consistent NaN-like partial key (no total by-function exists for it)
    // subsets of {PartialEq, Eq, PartialOrd} too: with Eq derived, a `==` that goes through the partial key must be
    // refused (hidden Eq assertion) - if such a program compiles, `==` is not reflexive and the law check reports it
    let partial_ok = derived.contains(&PartialEq) && !derived.contains(&Ord) && !derived.contains(&Hash) && derived.len() >= 2;
    let style = if partial_ok && ch.pick(2) == 1 { KeyStyle::ConsistentPartial } else { KeyStyle::Consistent };
    let reduced = reduced && style == KeyStyle::Consistent;
    let mut combo = Combo::PLAIN;
    for t in Tr::ALL {
        let full: &[Arg] = if matches!(t, Ord | PartialOrd) { &Arg::ORD7 } else { &Arg::EQ4 };
        let a = *ch.of(if reduced { &Arg::EQ4 } else { full });
        if a != Arg::None && !recognised(t, &derived) {
            return None;
        }
        if style == KeyStyle::ConsistentPartial && a.by() && t == Ord {
            return None;
        }
        combo = combo.with(t, a);
    }
    // a user-supplied non-reflexive `by` FUNCTION behind an `Eq` impl is the user's doing (it cannot be checked):
    // with Eq derived the partial style only explores `==` through keys or the field's own impl
    if style == KeyStyle::ConsistentPartial && derived.contains(&Eq) && matches!(select(&combo, PartialEq), Sel::By(_)) {
        return None;
    }
    let mut ts = container_spec(container, ctx, FieldSpec::cfg(combo, KeyForm::Method), style);
    // the enum container also with explicit discriminants in decreasing order
    if ts.is_enum {
        ts.discr = ch.pick(3) as u8;
    }
    Some(Case { gen: "laws", vector: ch.vector(), ts, derived, entry })
}

fn check_laws(c: &Case, obs: &Obs) -> (Option<(String, String)>, u64, BTreeSet<char>) {
    let vals = c.ts.values();
    let n = vals.len();
    let has = |t: Tr| c.derived.contains(&t);
    let mut inner = 0u64;
    let mut outs = BTreeSet::new();
    let eqs: Option<Vec<u8>> = obs.eq.as_ref().map(|s| s.bytes().collect());
    let pcs: Option<Vec<u8>> = obs.pc.as_ref().map(|s| s.bytes().collect());
    let cms: Option<Vec<u8>> = obs.cmp.as_ref().map(|s| s.bytes().collect());
    if let Some(e) = &eqs {
        if e.len() != 2 * n * n {
            return (Some(("observation-malformed".into(), "== table has wrong size".into())), 0, outs);
        }
    }
    if let Some(e) = &pcs {
        if e.len() != n * n {
            return (Some(("observation-malformed".into(), "partial_cmp table has wrong size".into())), 0, outs);
        }
    }
    if let Some(e) = &cms {
        if e.len() != n * n {
            return (Some(("observation-malformed".into(), "cmp table has wrong size".into())), 0, outs);
        }
    }
    let eq = |a: usize, b: usize| eqs.as_ref().map(|e| e[2 * (a * n + b)] == b't');
    let ne_ok = |a: usize, b: usize| eqs.as_ref().map(|e| e[2 * (a * n + b)] == e[2 * (a * n + b) + 1]).unwrap_or(true);
    let pc = |a: usize, b: usize| pcs.as_ref().map(|e| e[a * n + b]);
    let cm = |a: usize, b: usize| cms.as_ref().map(|e| e[a * n + b]);
    let rev = |x: u8| match x {
        b'L' => b'G',
        b'G' => b'L',
        o => o,
    };
    let sv = |i: usize| show_val(&c.ts, &vals[i]);
    let feeds = obs.hash.clone();
    if let Some(f) = &feeds {
        if f.len() != n {
            return (Some(("observation-malformed".into(), "hash feed list has wrong size".into())), 0, outs);
        }
    }
    for a in 0..n {
        for b in 0..n {
            inner += 1;
            if let Some(x) = pc(a, b) {
                outs.insert(x as char);
            }
            if let Some(x) = eq(a, b) {
                outs.insert(if x { 't' } else { 'f' });
            }
            if !ne_ok(a, b) {
                return (Some(("ne-disagrees-with-eq".into(), format!("{} != {} is not the negation of ==", sv(a), sv(b)))), inner, outs);
            }
            if let (Some(e), Some(p)) = (eq(a, b), pc(a, b)) {
                if e != (p == b'E') {
                    return (Some(("eq-vs-partial_cmp".into(), format!("{} == {} is {} but partial_cmp is {}", sv(a), sv(b), e, p as char))), inner, outs);
                }
            }
            if let (Some(e), Some(o)) = (eq(a, b), cm(a, b)) {
                if e != (o == b'E') {
                    return (Some(("eq-vs-cmp".into(), format!("{} == {} is {} but cmp is {}", sv(a), sv(b), e, o as char))), inner, outs);
                }
            }
            if let (Some(p), Some(o)) = (pc(a, b), cm(a, b)) {
                if p != o {
                    return (Some(("partial_cmp-vs-cmp".into(), format!("partial_cmp({}, {}) is {} but cmp is {}", sv(a), sv(b), p as char, o as char))), inner, outs);
                }
            }
            if let (Some(e), Some(f)) = (eq(a, b), &feeds) {
                if e && f[a].0 != f[b].0 {
                    return (Some(("eq-but-different-hash".into(), format!("{} == {} but hash feeds are [{}] and [{}]", sv(a), sv(b), f[a].0, f[b].0))), inner, outs);
                }
            }
            if let Some(e) = eq(a, b) {
                if eq(b, a) != Some(e) {
                    return (Some(("eq-not-symmetric".into(), format!("{} == {} is {} but the swapped comparison differs", sv(a), sv(b), e))), inner, outs);
                }
                if a == b && has(Eq) && !e {
                    return (Some(("eq-not-reflexive".into(), format!("{} != itself although Eq is derived", sv(a)))), inner, outs);
                }
            }
            if let Some(o) = cm(a, b) {
                if cm(b, a) != Some(rev(o)) {
                    return (Some(("cmp-not-antisymmetric".into(), format!("cmp({}, {}) is {} but cmp of the swapped pair is {}", sv(a), sv(b), o as char, cm(b, a).unwrap() as char))), inner, outs);
                }
            }
            if let Some(p) = pc(a, b) {
                if pc(b, a) != Some(rev(p)) {
                    return (Some(("partial_cmp-not-dual".into(), format!("partial_cmp({}, {}) is {} but of the swapped pair is {}", sv(a), sv(b), p as char, pc(b, a).unwrap() as char))), inner, outs);
                }
            }
        }
    }
    // transitivity on triples
    for a in 0..n {
        for b in 0..n {
            for cc in 0..n {
                inner += 1;
                if let (Some(x), Some(y), Some(z)) = (eq(a, b), eq(b, cc), eq(a, cc)) {
                    if x && y && !z {
                        return (Some(("eq-not-transitive".into(), format!("{} == {} == {} but first != last", sv(a), sv(b), sv(cc)))), inner, outs);
                    }
                }
                if let (Some(x), Some(y), Some(z)) = (cm(a, b), cm(b, cc), cm(a, cc)) {
                    let le = |o: u8| o != b'G';
                    if le(x) && le(y) && !le(z) {
                        return (Some(("cmp-not-transitive".into(), format!("{} <= {} <= {} but first > last", sv(a), sv(b), sv(cc)))), inner, outs);
                    }
                }
            }
        }
    }
    (None, inner, outs)
}

pub fn run(ctx: &Ctx, rep: &mut Report) {
    let thorough = ctx.tier.is_thorough();
    rep.rule = "terminal state = (supertrait-closed trait subset, container, entry point, one of the 3136 per-field combinations with ONE consistent key) that the real expander accepts for every requested trait; inner enumeration = all pairs and triples of a 12-15 value domain; distinct by program text; non-trivial = at least one helper attribute and at least 2 distinct outcomes".into();
    rep.assumptions = vec![
        "model-free laws: a==b <=> partial_cmp==Some(Equal) <=> cmp==Equal; partial_cmp==Some(cmp); a==b => equal recorded hash feeds; == symmetric/transitive (reflexive when Eq is derived); cmp antisymmetric under swap and transitive; partial_cmp dual under swap".into(),
        "all key/by functions express the single key v % 3 (for {PartialOrd, PartialEq} also the single NaN-like partial key: class 2 is incomparable and unequal to everything, itself included); combinations the expander refuses are C05's business and only counted here".into(),
    ];
    let mut cases: Vec<Case> = Vec::new();
    if let Some(p) = &ctx.replay {
        let v: serde_json::Value = serde_json::from_str(&std::fs::read_to_string(p).expect("replay file")).expect("replay json");
        let vec: Vec<usize> = v["case"]["vector"].as_array().unwrap().iter().map(|x| x.as_u64().unwrap() as usize).collect();
        let th = v["case"]["tier"] == "thorough";
        cases.push(replay(|ch| gen(ch, th), &vec).unwrap_or_else(|| crate::report::machinery("replayed vector is pruned")));
    } else {
        let st = explore(|ch| gen(ch, thorough), |_, c| cases.push(c));
        rep.stats.add(&st);
    }
    let items: Vec<String> = cases.iter().map(|c| c.ts.item().print()).collect();
    let acc = par_map(&items.iter().zip(cases.iter()).collect::<Vec<_>>(), threads(), |_, (item, c)| expander_accepts(c.entry, &c.derived, item).is_ok());
    let run_idx: Vec<usize> = (0..cases.len()).filter(|&i| acc[i]).collect();
    rep.set("refused_at_compile_time_by_expander", json!(cases.len() - run_idx.len()));
    rep.set("accepted_by_expander", json!(run_idx.len()));
    rep.evaluations += (cases.len() - run_idx.len()) as u64;
    let rcases: Vec<runner::Case> = run_idx.iter().map(|&i| runner::Case { code: program(&cases[i].ts, &cases[i].derived, cases[i].entry) }).collect();
    let res = runner::run_cases(&rcases, &runner::Opts::run("c02"));
    for (k, &i) in run_idx.iter().enumerate() {
        let c = &cases[i];
        let r = &res[k];
        let text = format!("{} {} {}", c.entry.name(), names(&c.derived).join(","), items[i]);
        let combo = c.ts.variants.iter().flat_map(|v| v.fields.iter()).find(|f| !f.combo.is_plain()).map(|f| f.combo).unwrap_or(Combo::PLAIN);
        let mut atoms = BTreeSet::new();
        atoms.insert(format!("derived={}", names(&c.derived).join("+")));
        atoms.insert(format!("entry={}", c.entry.name()));
        atoms.insert(format!("container={}", if c.ts.is_enum { "enum" } else { "struct" }));
        for t in Tr::ALL {
            atoms.insert(format!("{}={}", t.attr(), combo.get(t).short()));
        }
        let detail = |o: serde_json::Value| json!({"gen": "laws", "tier": ctx.tier.name(), "vector": c.vector, "entry": c.entry.name(), "derived": names(&c.derived), "item": items[i], "observation": o});
        if !r.compiled() {
            rep.case(&text, false);
            rep.add("unobservable_rustc_rejects_accepted_expansion(C20)", 1);
            rep.outcome(&format!("unobservable:{}", r.codes()));
            continue;
        }
        rep.validated += 1;
        if let Some(p) = &r.panicked {
            rep.case(&text, false);
            rep.violation(Violation { symptom: "panic-in-derived-impl".into(), atoms, what: format!("{} derive_ex({}): {}", c.ts.describe(), names(&c.derived).join(", "), p), detail: detail(json!(p)), standalone: None });
            continue;
        }
        let out = r.output.clone().unwrap_or_default();
        let obs = parse_obs(&out);
        let (bad, inner, outs) = check_laws(c, &obs);
        rep.inner_evaluations += inner;
        for o in &outs {
            rep.outcome(&format!("outcome:{o}"));
        }
        rep.case(&text, !combo.is_plain() && outs.len() >= 2);
        if let Some((symptom, what)) = bad {
            rep.violation(Violation { symptom, atoms, what: format!("{} derive_ex({}) via {}: {}", c.ts.describe(), names(&c.derived).join(", "), c.entry.name(), what), detail: detail(json!(out)), standalone: Some(format!("// program of the failing case (module body)\n{}", rcases[k].code)) });
        } else if rep.samples.len() < 4 && combo.n_set() >= 2 {
            rep.sample(json!({"entry": c.entry.name(), "derive_ex": names(&c.derived), "item": items[i], "values": c.ts.values().len(), "laws_checked_on_pairs_and_triples": inner}));
        }
    }
    rep.set("rustc_invocations", json!(runner::STATS.rustc_invocations.load(std::sync::atomic::Ordering::Relaxed)));
}
