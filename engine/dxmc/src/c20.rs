//! C20 — whatever expansion accepts without an error of its own type-checks.
//! Channels E (filter) and R (metadata-only rustc, warnings on): any error or warning
//! located in derive_ex's output for a case the expander accepted is a violation.

use crate::expand::{self, Entry, OutItem};
use crate::explore::{explore, par_map, replay, threads, Ch};
use crate::gen::fname;
use crate::report::{Report, Violation};
use crate::runner;
use crate::Ctx;
use serde_json::json;
use std::collections::BTreeSet;

const LISTS: [&[&str]; 18] = [
    &["Clone"],
    &["Copy", "Clone"],
    &["Debug"],
    &["Default"],
    &["PartialEq"],
    &["Eq", "PartialEq"],
    &["PartialOrd", "PartialEq"],
    &["Ord", "PartialOrd", "Eq", "PartialEq"],
    &["Hash"],
    &["Clone", "Debug", "Default", "Ord", "PartialOrd", "Eq", "PartialEq", "Hash"],
    &["Add"],
    &["SubAssign"],
    &["Neg"],
    &["Not"],
    &["Mul", "MulAssign", "Neg"],
    &["Deref"],
    &["Deref", "DerefMut"],
    &["Shl", "BitXorAssign"],
];

fn is_op(t: &str) -> bool {
    !matches!(t, "Clone" | "Copy" | "Debug" | "Default" | "PartialEq" | "Eq" | "PartialOrd" | "Ord" | "Hash" | "Deref" | "DerefMut")
}

/// (declaration, where-clause, field types available [first = default], every listed type uses all parameters?)
struct Gen {
    name: &'static str,
    decl: &'static str,
    wh: &'static str,
    tys: &'static [&'static str],
    /// a fixed pair of field types that together mention every parameter (None: any field of `tys` does)
    pair: Option<(&'static str, &'static str)>,
}
const GENS: [Gen; 18] = [
    Gen { name: "none", decl: "", wh: "", tys: &["i8", "(u8, bool)", "[u8; 2]"], pair: None },
    Gen { name: "T", decl: "<T>", wh: "", tys: &["T", "Option<T>", "Vec<T>", "Box<T>", "::core::marker::PhantomData<T>", "(T, u8)", "fn(T) -> T", "*const T", "[T; 2]", "::core::cell::Cell<T>"], pair: None },
    Gen { name: "T,U", decl: "<T, U>", wh: "", tys: &["(T, U)"], pair: Some(("T", "U")) },
    Gen { name: "const N", decl: "<const N: usize>", wh: "", tys: &["[u8; N]"], pair: None },
    Gen { name: "'a,T", decl: "<'a, T>", wh: "", tys: &["&'a T", "&'a [T]"], pair: Some(("&'a T", "Option<T>")) },
    Gen { name: "'a,T:'a+Tr,const N", decl: "<'a, T: 'a + Tr, const N: usize>", wh: "", tys: &["&'a [T; N]"], pair: Some(("&'a [T; N]", "T::Assoc")) },
    Gen { name: "defaults", decl: "<T = u8, const N: usize = 3>", wh: "", tys: &["[T; N]"], pair: Some(("[T; N]", "Option<T>")) },
    Gen { name: "where T: Tr", decl: "<T>", wh: "where T: Tr", tys: &["T", "T::Assoc", "<T as Tr>::Assoc"], pair: Some(("T", "<T as Tr>::Assoc")) },
    Gen { name: "where Self", decl: "<T>", wh: "where Self: Marker", tys: &["T", "Option<T>"], pair: None },
    Gen { name: "param H", decl: "<H>", wh: "", tys: &["H", "Option<H>"], pair: None },
    Gen { name: "T: ?Sized tail", decl: "<T: ?Sized>", wh: "", tys: &["T"], pair: Some(("u8", "T")) },
    Gen { name: "where T: Copy, Option<T>: Clone", decl: "<T>", wh: "where T: Copy, Option<T>: Clone", tys: &["T", "Option<T>"], pair: None },
    Gen { name: "where nested Self", decl: "<T>", wh: "where Option<Self>: Marker, T: Into<Box<Self>>", tys: &["T", "Option<T>"], pair: None },
    Gen { name: "inline bound with Self", decl: "<T: PartialEq<Vec<Self>>>", wh: "", tys: &["T", "Box<T>"], pair: None },
    Gen { name: "'a alone", decl: "<'a>", wh: "", tys: &["&'a i8"], pair: None },
    Gen { name: "where qualified Self", decl: "<T>", wh: "where Self: Tr, <Self as Tr>::Assoc: Marker", tys: &["T", "Option<T>"], pair: None },
    // a field type that mentions `Self` next to a parameter (Tag<_> implements every trait / operator form for every argument)
    Gen { name: "const named like a type", decl: "<const LEN: usize>", wh: "", tys: &["[u8; LEN]"], pair: None },
    Gen { name: "Self in field type", decl: "<T>", wh: "", tys: &["::dxrt::probe::Tag<(T, Self)>", "::dxrt::probe::Tag<(Option<T>, Box<Self>)>"], pair: None },
];

/// 0 unit struct, 1 tuple1, 2 tuple2, 3 named1, 4 named2, 5 empty enum, 6 enum{A}, 7 enum{A(f)}, 8 enum{A{f}}, 9 enum{A, B(f,f), C{f}}
const N_SHAPES: usize = 10;
fn shape_fields(s: usize) -> usize {
    [0, 1, 2, 1, 2, 0, 0, 1, 1, 3][s]
}
fn shape_is_enum(s: usize) -> bool {
    s >= 5
}

#[derive(Clone, Debug)]
struct Case {
    gen: &'static str,
    vector: Vec<usize>,
    list: Vec<String>,
    item: String,
    entry: Entry,
    desc: String,
}

fn render_shape(shape: usize, g: &Gen, tys: &[String], attrs: &[String], default_marker: bool) -> String {
    let f = |i: usize| -> String { format!("{} {}", attrs.get(i).cloned().unwrap_or_default(), tys[i]).trim().to_string() };
    let nf = |i: usize| -> String { format!("{} pub {}: {}", attrs.get(i).cloned().unwrap_or_default(), fname(i), tys[i]).trim().to_string() };
    let d = if default_marker { "#[default] " } else { "" };
    match shape {
        0 => format!("pub struct X{} {};", g.decl, g.wh),
        1 => format!("pub struct X{}({} pub {}) {};", g.decl, attrs.get(0).cloned().unwrap_or_default(), tys[0], g.wh),
        2 => format!("pub struct X{}({}, {}) {};", g.decl, f(0), f(1), g.wh),
        3 => format!("pub struct X{} {} {{ {} }}", g.decl, g.wh, nf(0)),
        4 => format!("pub struct X{} {} {{ {}, {} }}", g.decl, g.wh, nf(0), nf(1)),
        5 => format!("pub enum X{} {} {{ }}", g.decl, g.wh),
        6 => format!("pub enum X{} {} {{ {d}A }}", g.decl, g.wh),
        7 => format!("pub enum X{} {} {{ {d}A({}) }}", g.decl, g.wh, f(0)),
        8 => format!("pub enum X{} {} {{ {d}A {{ {} }} }}", g.decl, g.wh, nf(0).replace("pub ", "")),
        _ => format!("pub enum X{} {} {{ A, {d}B({}, {}), C {{ {} }} }}", g.decl, g.wh, f(0), f(1), nf(2).replace("pub ", "")),
    }
}

/// structural grammar: list x shape x generics x field type
fn gen_struct(ch: &mut Ch, thorough: bool) -> Option<Case> {
    let li = ch.pick(LISTS.len());
    let list = LISTS[li];
    let shape = ch.pick(N_SHAPES);
    let gi = ch.pick(GENS.len());
    let g = &GENS[gi];
    let nf = shape_fields(shape);
    // validity
    if list.iter().any(|t| is_op(t)) && shape_is_enum(shape) {
        return None;
    }
    if list.iter().any(|t| t.starts_with("Deref")) && !(nf == 1 && !shape_is_enum(shape)) {
        return None;
    }
    if nf == 0 && gi != 0 {
        return None; // unused parameters
    }
    let unsized_tail = g.name == "T: ?Sized tail";
    if unsized_tail && (shape_is_enum(shape) || nf != 2 || list.iter().any(|t| !matches!(*t, "Debug" | "PartialEq" | "Eq" | "PartialOrd" | "Ord" | "Hash"))) {
        return None;
    }
    if g.name == "where Self" && list.iter().any(|t| is_op(t)) && false {
        return None;
    }
    // concrete field types must implement every derived trait themselves
    let has_ops = list.iter().any(|t| is_op(t));
    if g.name == "'a alone" && (has_ops || list.contains(&"Default")) {
        return None;
    }
    // field types
    let mut tys: Vec<String> = Vec::new();
    if nf > 0 {
        match g.pair {
            Some((a, b)) if nf >= 2 => {
                tys.push(a.to_string());
                tys.push(b.to_string());
                for _ in 2..nf {
                    tys.push(a.to_string());
                }
            }
            _ => {
                // vary the type of field 0; the others take the default type
                let k = ch.pick(g.tys.len());
                if k != 0 && !thorough && gi != 1 {
                    return None;
                }
                if gi == 0 && k != 0 && has_ops {
                    return None;
                }
                tys.push(g.tys[k].to_string());
                for _ in 1..nf {
                    tys.push(g.tys[0].to_string());
                }
                if g.pair.is_some() && nf == 1 && k != 0 {
                    return None;
                }
            }
        }
    }
    let entry = *ch.of(&Entry::BOTH);
    if entry == Entry::Derive && !thorough && !(gi <= 1) {
        return None;
    }
    // the empty enum cannot have a default variant
    let needs_default_marker = list.contains(&"Default") && shape_is_enum(shape) && shape != 5;
    if list.contains(&"Default") && shape == 5 {
        return None;
    }
    let item = render_shape(shape, g, &tys, &[], needs_default_marker);
    Some(Case { gen: "struct", vector: ch.vector(), list: list.iter().map(|s| s.to_string()).collect(), item, entry, desc: format!("list {:?} shape {} generics [{}] types {:?}", list, shape, g.name, tys) })
}

/// attribute flavours on fields whose type mentions a parameter
fn gen_attrs(ch: &mut Ch, thorough: bool) -> Option<Case> {
    let lists: [&[&str]; 6] = [&["PartialEq"], &["PartialOrd", "PartialEq"], &["Ord", "PartialOrd", "Eq", "PartialEq"], &["Hash"], &["Eq", "PartialEq", "Hash"], &["Ord", "PartialOrd", "Eq", "PartialEq", "Hash"]];
    let list = *ch.of(&lists);
    let shape = *ch.of(&[2usize, 4, 9, 1, 7]);
    let nf = shape_fields(shape);
    let pos = ch.pick(nf);
    let g = &GENS[1];
    // which attribute carries the customisation: the least specific one that serves every listed trait
    let has = |t: &str| list.contains(&t);
    let flavour = ch.pick(8);
    let fty = *ch.of(&["Option<T>", "T", "Vec<T>"]);
    if !thorough && fty != "Option<T>" && flavour > 1 {
        return None;
    }
    let attr = match flavour {
        // by = .. with an explicit bound
        0 => {
            let mut v = Vec::new();
            if has("Ord") {
                v.push("#[ord(by = |a, b| ::core::cmp::Ord::cmp(a, b), bound(T: ::core::cmp::Ord))]".to_string());
            } else if has("PartialOrd") {
                v.push("#[partial_ord(by = |a, b| ::core::cmp::PartialOrd::partial_cmp(a, b), bound(T: ::core::cmp::PartialOrd))]".to_string());
            } else if has("Eq") {
                v.push("#[eq(by = |a, b| a == b, bound(T: ::core::cmp::Eq))]".to_string());
            } else if has("PartialEq") {
                v.push("#[partial_eq(by = |a, b| a == b, bound(T: ::core::cmp::PartialEq))]".to_string());
            }
            if has("Hash") {
                v.push("#[hash(by = |a, s| ::core::hash::Hash::hash(a, s), bound(T: ::core::hash::Hash))]".to_string());
            }
            v.join(" ")
        }
        // by = path to a generic fn
        1 => {
            let mut v = Vec::new();
            if has("Ord") {
                v.push("#[ord(by = ::core::cmp::Ord::cmp, bound(T: ::core::cmp::Ord))]".to_string());
            } else if has("PartialOrd") {
                v.push("#[partial_ord(by = ::core::cmp::PartialOrd::partial_cmp, bound(T: ::core::cmp::PartialOrd))]".to_string());
            } else if has("Eq") {
                v.push("#[eq(by = ::core::cmp::PartialEq::eq, bound(T: ::core::cmp::Eq))]".to_string());
            } else if has("PartialEq") {
                v.push("#[partial_eq(by = ::core::cmp::PartialEq::eq, bound(T: ::core::cmp::PartialEq))]".to_string());
            }
            if has("Hash") {
                v.push("#[hash(by = ::core::hash::Hash::hash, bound(T: ::core::hash::Hash))]".to_string());
            }
            v.join(" ")
        }
        // key that does not need the parameter
        2 => "#[ord(key = ::core::mem::size_of_val(&$))]".to_string(),
        // key needing a bound
        3 => {
            if fty != "Option<T>" {
                return None;
            }
            "#[ord(key = $.is_some())]".to_string()
        }
        4 => "#[ord(ignore)]".to_string(),
        5 => {
            if !(has("PartialOrd") || has("Ord")) {
                return None;
            }
            "#[ord(reverse)]".to_string()
        }
        6 => {
            if !has("PartialOrd") || has("Ord") {
                return None;
            }
            "#[partial_ord(reverse, key = ::core::mem::size_of_val(&$))]".to_string()
        }
        _ => {
            if !has("Hash") || has("PartialEq") {
                return None;
            }
            "#[hash(ignore)]".to_string()
        }
    };
    let entry = *ch.of(&Entry::BOTH);
    if entry == Entry::Derive && !thorough && !(shape == 2) {
        return None;
    }
    let tys: Vec<String> = (0..nf).map(|i| if i == pos { fty.to_string() } else { "Option<T>".to_string() }).collect();
    let mut attrs = vec![String::new(); nf];
    attrs[pos] = attr;
    let item = render_shape(shape, g, &tys, &attrs, false);
    Some(Case { gen: "attrs", vector: ch.vector(), list: list.iter().map(|s| s.to_string()).collect(), item, entry, desc: format!("list {:?} shape {} attribute flavour {} on field {} of {}", list, shape, flavour, pos, nf) })
}

/// Debug / Default attribute flavours
fn gen_misc(ch: &mut Ch, _thorough: bool) -> Option<Case> {
    let cases: [(&[&str], &str); 50] = [
        (&["Debug"], "pub struct X<T>(#[debug(ignore)] pub T, pub Option<T>);"),
        (&["Debug"], "pub struct X<T> { #[debug(transparent)] pub a: Vec<T>, pub b: u8 }"),
        (&["Debug"], "pub enum X<'a, T> { A(#[debug(ignore)] &'a T), B { #[debug(transparent)] x: T }, C }"),
        (&["Debug"], "#[debug(bound(T: ::core::fmt::Debug))] pub struct X<T>(pub ::core::marker::PhantomData<T>);"),
        (&["Default"], "pub struct X<T>(#[default(None)] pub Option<T>, pub Vec<T>);"),
        (&["Default"], "pub struct X<T: Tr> { #[default(T::mk())] pub a: T, pub b: u8 }"),
        (&["Default"], "#[default(Self::B)] pub enum X<T> { A(T), B }"),
        (&["Default"], "pub enum X<T> { A(T), #[default] B { #[default(Vec::new())] v: Vec<T>, w: Option<T> } }"),
        (&["Default"], "pub struct X<const N: usize> { #[default([0; N])] pub a: [u8; N] }"),
        (&["Default"], "pub struct X<T>(#[default(_, bound(T: ::core::default::Default))] pub T);"),
        (&["Default"], "pub struct X<T> { #[default(T::mk(), bound(T: Tr))] pub a: T, pub b: u8 }"),
        (&["Default"], "pub enum X<T> { A, #[default] B(#[default(T::mk(), bound(T: Tr))] T, Option<T>) }"),
        (&["Default"], "pub struct X<T>(#[default(T::mk(), bound(T: Tr, ..))] pub T, #[default(_, bound(Vec<T>: ::core::default::Default))] pub Vec<T>);"),
        (&["Debug"], "pub struct X<T>(#[debug(bound(T: ::core::fmt::Debug))] pub Option<T>, #[debug(ignore, bound())] pub T);"),
        (&["Ord", "PartialOrd", "Eq", "PartialEq", "Hash"], "pub struct X<T: ?Sized>(pub u8, #[ord(by = |_, _| ::core::cmp::Ordering::Equal)] #[hash(by = |_, _| ())] pub T);"),
        (&["PartialOrd", "PartialEq"], "pub struct X(pub u8, #[ord(by = |_, _| ::core::cmp::Ordering::Equal)] pub [u8]);"),
        (&["PartialOrd", "PartialEq"], "pub struct X { pub a: u8, #[partial_ord(by = |_, _| None)] #[partial_eq(by = |_, _| true)] pub b: str }"),
        (&["Debug"], "pub enum X<T, U> { #[debug(bound(T: ::core::fmt::Debug))] A(T), B(U), C { u: Option<U> } }"),
        (&["Clone", "PartialEq", "Hash"], "pub enum X<T, U> { #[derive_ex(Clone(bound(T: ::core::clone::Clone)))] A(T), #[derive_ex(PartialEq, bound(U: ::core::cmp::PartialEq))] B(U), C(T, U) }"),
        (&["Clone", "Default"], "pub struct X<T>(pub Box<T>) ;"),
        (&["Clone", "Debug"], "pub enum X<T> { A(T), #[derive_ex(Clone(bound(T: ::core::clone::Clone)), bound(..))] B { #[derive_ex(Debug, bound(T: ::core::fmt::Debug))] x: Option<T> } }"),
        (&["Copy", "Clone", "PartialEq", "Hash"], "pub struct X<T: ?Sized>(pub *const T);"),
        (&["PartialEq", "Debug"], "pub struct X<T>(pub fn(T) -> T);"),
        // two helper attributes with bound lists at one placement: each trait takes the most specific one
        (&["Eq", "PartialEq", "Hash"], "#[eq(bound(T: ::core::cmp::Eq))] #[hash(bound(T: ::core::hash::Hash))] pub struct X<T>(pub T);"),
        (&["Ord", "PartialOrd", "Eq", "PartialEq", "Hash"], "#[ord(bound(T: ::core::cmp::Ord))] #[hash(bound(T: ::core::hash::Hash))] pub struct X<T> { pub q0: T, pub c1: u8 }"),
        (&["Eq", "PartialEq", "Hash"], "pub enum X<T, U> { #[eq(bound(T: ::core::cmp::Eq))] #[hash(bound(T: ::core::hash::Hash))] A(T), B(U) }"),
        (&["Ord", "PartialOrd", "Eq", "PartialEq"], "#[ord(bound(T: ::core::cmp::Ord))] #[partial_ord(bound(T: ::core::cmp::PartialOrd))] #[eq(bound(T: ::core::cmp::Eq))] #[partial_eq(bound(T: ::core::cmp::PartialEq))] pub struct X<T>(pub T);"),
        // field names with a leading underscore (the usual spelling of marker / unused fields)
        (&["Clone", "Debug", "Default", "Ord", "PartialOrd", "Eq", "PartialEq", "Hash"], "pub enum X<T> { #[default] A, B { _marker: ::core::marker::PhantomData<T>, _x: u8 } }"),
        (&["Clone", "Debug", "Default", "Ord", "PartialOrd", "Eq", "PartialEq", "Hash"], "pub struct X<T> { pub _marker: ::core::marker::PhantomData<T>, #[ord(by = |a, b| ::core::cmp::Ord::cmp(a, b))] #[hash(by = |a: &u8, s| ::core::hash::Hash::hash(a, s))] pub _y: u8 }"),
        (&["Add", "SubAssign", "Neg", "Clone"], "pub struct X { pub _a: i8, pub __b: i8 }"),
        (&["Ord", "PartialOrd", "Eq", "PartialEq", "Hash", "Debug"], "pub enum X { A { #[ord(key = $ + 1)] _k: u8, #[debug(ignore)] __state: u8 }, B(u8) }"),
        // `Self` inside a key expression
        (&["Eq", "PartialEq", "Hash"], "pub struct X(#[eq(key = ::core::mem::size_of::<Self>() as u64 + $.to_bits())] pub f64, pub u8);"),
        (&["Ord", "PartialOrd", "Eq", "PartialEq", "Hash"], "pub struct X<T>(#[ord(key = (::core::mem::size_of::<Self>(), $.len()))] pub Vec<T>, pub u8);"),
        (&["Eq", "PartialEq"], "pub enum X<T> { A(#[eq(key = ::core::mem::size_of::<Option<Self>>() + $.len())] Vec<T>), B }"),
        // `$` as a whole function argument / block tail / parenthesized operand of a key: the substituted `(self.f)`
        // must not draw `unused_parens` in the user's crate, in any generated item (the hidden Eq assertion included)
        (&["Eq", "PartialEq", "Hash"], "pub struct X(#[eq(key = norm($))] pub u8, #[eq(key = { $ })] pub u8, #[eq(key = ($))] pub u8); /*extra*/ pub fn norm(x: u8) -> u8 { x }"),
        (&["Ord", "PartialOrd", "Eq", "PartialEq"], "pub enum X { A(#[ord(key = norm($))] u8, #[ord(key = { $ })] u8), B } /*extra*/ pub fn norm(x: u8) -> u8 { x }"),
        // type-level default values on generic types: a path (through Into) and a string literal (through a user From<&str>)
        (&["Default"], "#[default(Self::MK)] pub struct X<T>(pub Option<T>); /*extra*/ impl<T> X<T> { pub const MK: Self = X(None); }"),
        (&["Default", "Clone"], "#[default(\"lit\")] pub struct X<T> { pub a: Vec<T> } /*extra*/ impl<T> ::core::convert::From<&str> for X<T> { fn from(_: &str) -> Self { X { a: Vec::new() } } }"),
        (&["Default"], "#[default(Self::MK)] pub enum X<T> { A(T), B } /*extra*/ impl<T> X<T> { pub const MK: Self = X::B; }"),
        // misuse of a key template (`$` where a pattern / a type is expected): answered by derive_ex itself, or - if the
        // expander lets it through - rustc must not trip over the generated code
        (&["PartialEq"], "pub struct X(#[partial_eq(key = { let ($) = 1u8; 0u8 })] pub u8);"),
        (&["PartialOrd", "PartialEq"], "pub enum X { A(#[partial_ord(key = (|$| 0u8)(1u8))] u8), B }"),
        (&["Hash"], "pub struct X { #[hash(key = ::core::mem::size_of::<$>())] pub x: u8 }"),
        // a per-trait bound next to a list-wide bound, both without `..`: each trait's body needs ITS bound
        (&["Clone(bound(T: ::core::clone::Clone))", "Default", "bound(T: ::core::default::Default)"], "pub struct X<T>(pub T);"),
        (&["Debug", "Neg(bound(T: ::core::ops::Neg<Output = T>, for<'x> &'x T: ::core::ops::Neg<Output = T>))", "bound(T: ::core::fmt::Debug)"], "pub struct X<T>(pub T);"),
        // a deprecated item / field / variant: deriving for it is no use the author wants to be warned about (the
        // standard derives are exempt from the lint)
        (&["Clone", "Debug", "PartialEq", "Eq", "Default", "Hash"], "#[deprecated] pub struct X(pub u8);"),
        (&["Clone", "Debug", "PartialEq", "Default"], "pub struct X { #[deprecated] pub a: u8, pub b: u8 }"),
        (&["Clone", "Debug", "Default", "PartialEq"], "pub enum X { #[default] A, #[deprecated] B(u8) }"),
        // lint level attributes on the item cover the generated impls as they cover the impls of the standard derives
        // (the impls repeat the generic parameters and the field types)
        (&["Clone", "Debug", "Default", "Ord", "PartialOrd", "Eq", "PartialEq", "Hash"], "#[allow(non_camel_case_types, non_upper_case_globals)] pub struct X<t, const n: usize>(pub [t; n]);"),
        (&["Clone", "Debug", "PartialEq", "Eq", "Hash"], "#[allow(non_camel_case_types)] pub enum X<t> { A(t), B }"),
        (&["Clone", "Debug", "PartialEq"], "#[allow(deprecated)] pub struct X<T>(pub old::Old<T>, #[deprecated] pub u8); /*extra*/ pub mod old { #[deprecated] #[derive(Clone, Debug, PartialEq)] pub struct Old<T>(pub T); }"),
    ];
    let (list, item) = *ch.of(&cases);
    let entry = *ch.of(&Entry::BOTH);
    Some(Case { gen: "misc", vector: ch.vector(), list: list.iter().map(|s| s.to_string()).collect(), item: item.to_string(), entry, desc: "fixed debug/default flavour".into() })
}

/// explicit `bound(..)` arguments whose predicates mention `Self` (always true: `Self: Sized`), at every
/// kind of placement, for every trait list
fn gen_selfbound(ch: &mut Ch, _thorough: bool) -> Option<Case> {
    let li = ch.pick(LISTS.len());
    let list = LISTS[li];
    let ops = list.iter().any(|t| is_op(t));
    let deref = list.iter().any(|t| t.starts_with("Deref"));
    // 0 struct X<T>(T), 1 struct X<T> { f: Option<T>, g: T }, 2 enum X<T> { A, B(T), C { f: Option<T> } }
    let shape = ch.pick(3);
    if shape == 2 && (ops || deref) || shape == 1 && deref {
        return None;
    }
    let pred = *ch.of(&["Self: Sized", "Self: Sized, ..", "Option<Self>: Sized, .."]);
    // placement: 0 shared at type, 1 per-trait (first trait) at type, 2 helper attribute at type,
    // 3 shared on the first field, 4 per-trait on the first field, 5 helper attribute on the first field,
    // 6 shared on a variant
    let place = ch.pick(7);
    if place == 6 && shape != 2 || (deref && place >= 3) {
        return None;
    }
    let helper = match list[0] {
        "Debug" => Some("debug"),
        "Default" => Some("default"),
        "PartialEq" => Some("partial_eq"),
        "Eq" => Some("eq"),
        "PartialOrd" => Some("partial_ord"),
        "Ord" => Some("ord"),
        "Hash" => Some("hash"),
        _ => None,
    };
    if matches!(place, 2 | 5) && helper.is_none() {
        return None;
    }
    // a predicate list without `..` on a FIELD or VARIANT stops the default bound of that field: keep the impl well-typed
    // by using a field type that needs no bound there (Option<Self>-style predicates never replace T's bound)
    let stops = !pred.ends_with("..");
    let mut l: Vec<String> = list.iter().map(|t| t.to_string()).collect();
    let mut type_attr = String::new();
    let mut field_attr = String::new();
    let mut variant_attr = String::new();
    let h = |a: &str| if a == "default" { format!("#[default(_, bound({pred}))]") } else { format!("#[{a}(bound({pred}))]") };
    match place {
        0 => l.push(format!("bound({pred})")),
        1 => l[0] = format!("{}(bound({pred}))", list[0]),
        2 => type_attr = h(helper.unwrap()),
        3 => field_attr = format!("#[derive_ex({}, bound({pred}))]", list.join(", ")),
        4 => field_attr = format!("#[derive_ex({}(bound({pred})))]", list[0]),
        5 => field_attr = h(helper.unwrap()),
        _ => variant_attr = format!("#[derive_ex({}, bound({pred}))]", list.join(", ")),
    }
    if stops {
        // the generated impl needs `T: Trait`, which a stopping list removes: only explore the continuing forms
        return None;
    }
    let d = if list.contains(&"Default") { "#[default] " } else { "" };
    let item = match shape {
        0 => format!("{type_attr} pub struct X<T>({field_attr} pub T);"),
        1 => format!("{type_attr} pub struct X<T> {{ {field_attr} pub q0: Option<T>, pub c1: T }}"),
        _ => format!("{type_attr} pub enum X<T> {{ A, {d}{variant_attr} B({field_attr} T), C {{ x2: Option<T> }} }}"),
    };
    let entry = *ch.of(&Entry::BOTH);
    Some(Case { gen: "selfbound", vector: ch.vector(), list: l, item: item.trim().to_string(), entry, desc: format!("bound({pred}) at placement {place}") })
}

/// definitions generated by a `macro_rules!` macro: the field type arrives as an `ident` / `tt` fragment of the
/// macro call, or the whole derive_ex attribute arrives as a `meta` fragment
fn gen_macro(ch: &mut Ch, _thorough: bool) -> Option<Case> {
    let li = ch.pick(LISTS.len());
    let list = LISTS[li];
    let deref = list.iter().any(|t| t.starts_with("Deref"));
    let ops = list.iter().any(|t| is_op(t));
    // 0 struct X { a: Fty, b: Fty }, 1 struct X(Fty), 2 enum X { A, B(Fty), C { q: Fty } }
    let shape = ch.pick(3);
    if deref && shape != 1 || ops && shape == 2 {
        return None;
    }
    // "expr-default": explicit default values (a string literal and a path, both needing the documented Into) arrive
    // as `expr` fragments
    // "bound-fragments": an explicit bound whose predicates contain an `expr` fragment (array length) and a `ty`
    // fragment (multi-bound trait object behind a reference)
    // "cast-in-type": the field type holds an expr fragment as the operand of a cast (`[Fty; $n as usize]`)
    let frag = *ch.of(&["ident", "tt", "meta", "expr-default", "bound-fragments", "cast-in-type"]);
    let entry = *ch.of(&Entry::BOTH);
    if frag == "expr-default" && !(list.contains(&"Default") && shape == 0) {
        return None;
    }
    if frag == "bound-fragments" && (deref || ops) {
        return None;
    }
    if frag == "cast-in-type" && (deref || ops || shape != 0) {
        return None;
    }
    let d = if list.contains(&"Default") { "#[default] " } else { "" };
    let item = match shape {
        0 => "pub struct X { pub a: Fty, pub b: Fty }".to_string(),
        1 => "pub struct X(pub Fty);".to_string(),
        _ => format!("pub enum X {{ {d}A, B(Fty), C {{ q: Fty }} }}"),
    };
    Some(Case { gen: "macro", vector: ch.vector(), list: list.iter().map(|s| s.to_string()).collect(), item, entry, desc: frag.to_string() })
}

fn program(c: &Case) -> String {
    if c.gen == "macro" {
        let list = c.list.join(", ");
        let ex = if c.entry == Entry::Derive { "#[derive(Ex)] " } else { "" };
        let body = match c.desc.as_str() {
            "meta" => format!("macro_rules! mk {{ ($m:meta) => {{ {ex}#[$m] {} }} }}\nmk!(derive_ex({list}));\n", c.item),
            "bound-fragments" => format!("pub trait L4 {{}}\nimpl L4 for [u8; 4] {{}}\nmacro_rules! mk {{ ($e:expr, $t:ty) => {{ {ex}#[derive_ex({list}, bound([u8; $e * 2]: L4, &'static $t: ::core::marker::Copy, ..))] {} }} }}\nmk!(1 + 1, dyn ::core::fmt::Debug + Send);\n", c.item),
            "cast-in-type" => format!("macro_rules! mk {{ ($n:expr) => {{ {ex}#[derive_ex({list})] {} }} }}\nmk!(1u8 + 2u8);\n", c.item.replace("pub a: Fty", "pub a: [Fty; $n as usize]")),
            "expr-default" => format!("pub const S9: &str = \"s9\";\nmacro_rules! mk {{ ($v:expr, $w:expr) => {{ {ex}#[derive_ex({list})] {} }} }}\nmk!(\"abc\", S9);\n", c.item.replace("pub a: Fty", "#[default($v)] pub a: Wr").replace("pub b: Fty", "#[default($w)] pub b: Wr")),
            f => format!("macro_rules! mk {{ ($t:{f}) => {{ {ex}#[derive_ex({list})] {} }} }}\nmk!(Fty);\n", c.item.replace("Fty", "$t")),
        };
        // Wr: every std trait of the lists, and From<&str> only (the value needs the conversion)
        return format!("use derive_ex::{{derive_ex, Ex}};\npub type Fty = i8;\n#[derive(Clone, Copy, Debug, Default, PartialEq, Eq, PartialOrd, Ord, Hash)] pub struct Wr(pub u8);\nimpl<'a> ::core::convert::From<&'a str> for Wr {{ fn from(s: &'a str) -> Wr {{ Wr(s.len() as u8) }} }}\n{body}");
    }
    let list = c.list.join(", ");
    let head = match c.entry {
        Entry::Attr => format!("#[derive_ex({list})]"),
        Entry::Derive => format!("#[derive(Ex)]\n#[derive_ex({list})]"),
    };
    format!("use derive_ex::{{derive_ex, Ex}};\npub trait Tr {{ type Assoc; fn mk() -> Self; }}\npub trait Marker {{}}\n#[allow(non_camel_case_types, dead_code)] pub type LEN = usize;\n{head}\n{}\n", c.item)
}

pub fn run(ctx: &Ctx, rep: &mut Report) {
    let thorough = ctx.tier.is_thorough();
    rep.rule = "terminal state = (trait list x struct/enum shape incl. empty and single-variant enums x generics option [type/const/lifetime parameters, inline bounds, defaults, where-clauses incl. `Self`, hostile names H and 'a, ?Sized tail] x field type over the parameters x entry point) | (comparison list x shape x attribute flavour [by closure / by path / key / ignore / reverse] x position first/middle/last x generic field type) | fixed Debug/Default flavours | (trait list x 3 shapes generated by a macro_rules! macro with the field type as ident / tt fragment or the attribute as meta fragment) | (trait list x 3 shapes x explicit bound(..) whose predicates mention `Self` x 7 placements [shared / per-trait / helper attribute at type, field, variant]); cases whose in-process expansion contains a compile_error! are set aside; the rest is compiled metadata-only with warnings on; distinct by program text; non-trivial = accepted by the expander and generic or attributed".into();
    rep.assumptions = vec!["user-written pieces are well-typed by construction: field types either mention a type/const parameter (then covered by the generated bound) or implement every derived trait; closures / paths / keys are well-typed under the explicit bound(..) given".into(), "every error and every warning attributed to an accepted case counts (the scaffolding is warning-free by construction; unused imports are allowed crate-wide)".into()];
    let mut cases: Vec<Case> = Vec::new();
    let gens: [(&str, fn(&mut Ch, bool) -> Option<Case>); 5] = [("struct", gen_struct), ("attrs", gen_attrs), ("misc", gen_misc), ("selfbound", gen_selfbound), ("macro", gen_macro)];
    if let Some(p) = &ctx.replay {
        let v: serde_json::Value = serde_json::from_str(&std::fs::read_to_string(p).expect("replay file")).expect("replay json");
        let vec: Vec<usize> = v["case"]["vector"].as_array().unwrap().iter().map(|x| x.as_u64().unwrap() as usize).collect();
        let th = v["case"]["tier"] == "thorough";
        let g = gens.iter().find(|g| v["case"]["gen"] == g.0).map(|g| g.1).unwrap_or(gen_struct);
        cases.push(replay(|ch| g(ch, th), &vec).unwrap_or_else(|| crate::report::machinery("replayed vector is pruned")));
    } else {
        for (_, g) in gens {
            let st = explore(|ch| g(ch, thorough), |_, c| cases.push(c));
            rep.stats.add(&st);
        }
    }
    // the comparison-family generators of C01 / C06 (all accepted attribute placements)
    let mut borrowed_programs: std::collections::BTreeMap<usize, String> = std::collections::BTreeMap::new();
    if ctx.replay.is_none() {
        let (c1, st1) = crate::c01::all_cases(false);
        let (c6, st6) = crate::c06::all_cases(false);
        rep.stats.add(&st1);
        rep.stats.add(&st6);
        for (name, c) in c1.iter().map(|c| ("c01", c)).chain(c6.iter().map(|c| ("c06", c))) {
            if !thorough && c.entry == Entry::Derive && c.gen != "m2" {
                continue;
            }
            // refused by design through a rustc error in the hidden Eq assertion (C17's mechanism and subject)
            if crate::cmpx::refused_by_eq_assertion(&c.ts, &c.derived) {
                rep.add("borrowed_programs_left_to_C17(non-Eq value under == with Eq derived)", 1);
                continue;
            }
            let item = c.ts.item().print();
            let list: Vec<String> = crate::refmodel::names(&c.derived);
            borrowed_programs.insert(cases.len(), crate::cmpx::program(&c.ts, &c.derived, c.entry));
            cases.push(Case { gen: if name == "c01" { "c01-generators" } else { "c06-generators" }, vector: c.vector.clone(), list, item, entry: c.entry, desc: c.ts.describe() });
        }
    }
    // E filter: does the expander report an error of its own?
    let own = par_map(&cases, threads(), |_, c| {
        // (an item may be followed by further user items after the marker `/*extra*/`)
        let r = expand::expand(c.entry, &c.list.join(", "), c.item.split("/*extra*/").next().unwrap_or("")).and_then(|ts| expand::parse_output(ts, c.entry == Entry::Attr));
        match r {
            Ok(items) => items.iter().filter_map(|i| if let OutItem::Error(m) = i { Some(m.clone()) } else { None }).next(),
            // output that does not even parse (or a panic) is no message of derive_ex's own: rustc decides, and whatever
            // it says about the generated code counts
            Err(_) => None,
        }
    });
    let idx: Vec<usize> = (0..cases.len()).filter(|&i| own[i].is_none()).collect();
    for i in 0..cases.len() {
        if let Some(m) = &own[i] {
            rep.case(&format!("{} {} {}", cases[i].entry.name(), cases[i].list.join(","), cases[i].item), false);
            rep.outcome("expander-reports-own-error");
            if rep.extra.get("first_own_error").is_none() {
                rep.set("first_own_error", json!({"item": cases[i].item, "list": cases[i].list, "message": runner::first_line(m)}));
            }
        }
    }
    let rcases: Vec<runner::Case> = idx.iter().map(|&i| runner::Case { code: borrowed_programs.get(&i).cloned().unwrap_or_else(|| program(&cases[i])) }).collect();
    let mut opts = runner::Opts::check("c20");
    opts.crate_attrs = "#![allow(unused_imports, dead_code)]".into();
    let res = runner::run_cases(&rcases, &opts);
    // warnings that the standard derive draws as well for the same definition are exempt: compile the std twin of
    // every own-grammar case that drew warnings only (and derives only std-derivable traits without helper attributes)
    let std_traits = ["Clone", "Copy", "Debug", "Default", "PartialEq", "Eq", "PartialOrd", "Ord", "Hash"];
    let mut twin_of: std::collections::BTreeMap<usize, usize> = std::collections::BTreeMap::new();
    let mut twins: Vec<runner::Case> = Vec::new();
    for (k, &i) in idx.iter().enumerate() {
        let c = &cases[i];
        let r = &res[k];
        let own_grammar = !c.gen.ends_with("-generators");
        if own_grammar && r.compiled() && r.diags.iter().any(|d| d.level == "warning") && c.list.iter().all(|t| std_traits.contains(&t.as_str())) && !c.item.replace("#[default] ", "").contains("#[") {
            twin_of.insert(i, twins.len());
            // two twins: the full list, and the list without Default (which the std derive cannot provide for
            // every field type, e.g. fn pointers); lints of both are taken
            for (l, item) in [(c.list.clone(), c.item.clone()), (c.list.iter().filter(|t| *t != "Default").cloned().collect::<Vec<_>>(), c.item.replace("#[default] ", ""))] {
                twins.push(runner::Case { code: format!("pub trait Tr {{ type Assoc; fn mk() -> Self; }}\npub trait Marker {{}}\n#[allow(non_camel_case_types, dead_code)] pub type LEN = usize;\n#[derive({})]\n{}\n", l.join(", "), item) });
            }
        }
    }
    let twin_res = if twins.is_empty() { Vec::new() } else { runner::run_cases(&twins, &opts) };
    rep.set("std_twins_compiled_for_warning_comparison", json!(twins.len()));
    for (k, &i) in idx.iter().enumerate() {
        let c = &cases[i];
        let r = &res[k];
        rep.validated += 1;
        let text = format!("{} {} {}", c.entry.name(), c.list.join(","), c.item);
        rep.case(&text, c.item.contains('<') || c.item.contains("#["));
        // errors: every error of the case counts (the user-written pieces are well-typed by construction and
        // embedded expressions keep their own spans inside the generated impl); warnings: only those whose span
        // lies in derive_ex's output
        // (a warning about an identifier that only exists in derive_ex's output can carry a user span - e.g. the
        // helper fn names derived from field names - so every warning attributed to the case counts; the program
        // text outside the derive is warning-free by construction, unused imports are allowed crate-wide)
        // (programs borrowed from the C01 / C06 generators are not written to be warning-free: there only
        // warnings located in the macro output count)
        let own_grammar = !c.gen.ends_with("-generators");
        let twin_lints: Vec<String> = twin_of.get(&i).map(|&t| twin_res[t].diags.iter().chain(twin_res[t + 1].diags.iter()).filter(|d| d.level == "warning").map(|d| d.code.clone()).collect()).unwrap_or_default();
        let exempt = |d: &runner::Diag| d.level == "warning" && twin_lints.contains(&d.code);
        for d in r.diags.iter().filter(|d| exempt(d)) {
            rep.outcome(&format!("warning-also-drawn-by-std-derive:{}", d.code));
        }
        let bad: Vec<&runner::Diag> = r.diags.iter().filter(|d| !exempt(d) && (d.in_macro || d.level == "error" || (own_grammar && d.level == "warning"))).collect();
        let other: Vec<&runner::Diag> = Vec::new();
        if bad.is_empty() {
            if other.is_empty() {
                rep.outcome("compiles-clean");
            } else {
                // an error outside the macro output: the generator produced an ill-typed program; do not hide it
                rep.outcome(&format!("error-outside-macro-output:{}", other.iter().map(|d| d.code.clone()).collect::<Vec<_>>().join(",")));
                if rep.extra.get("first_error_outside_macro_output").is_none() {
                    rep.set("first_error_outside_macro_output", json!({"program": rcases[k].code, "errors": other.iter().map(|d| format!("{} {}", d.code, runner::first_line(&d.message))).collect::<Vec<_>>()}));
                }
            }
            if rep.samples.len() < 5 && c.gen != "struct" {
                rep.sample(json!({"entry": c.entry.name(), "derive_ex": c.list, "item": c.item}));
            }
            continue;
        }
        let mut codes: Vec<String> = bad.iter().map(|d| if d.code.is_empty() { d.level.clone() } else { d.code.clone() }).collect();
        codes.sort();
        codes.dedup();
        rep.outcome(&format!("diagnostic-in-macro-output:{}", codes.join(",")));
        let mut atoms = BTreeSet::new();
        atoms.insert(format!("gen={}", c.gen));
        atoms.insert(format!("entry={}", c.entry.name()));
        for t in &c.list {
            atoms.insert(format!("trait={t}"));
        }
        atoms.insert(format!("group={}", codes.join(",")));
        for w in c.desc.split_whitespace() {
            let _ = w;
        }
        if c.item.contains("where Self") {
            atoms.insert("where=Self".into());
        }
        if c.item.contains("<H>") {
            atoms.insert("param=H".into());
        }
        if c.item.contains("<'a") {
            atoms.insert("lifetime='a".into());
        }
        if c.item.contains("{ }") {
            atoms.insert("shape=empty-enum".into());
        }
        if c.item.contains("?Sized") {
            atoms.insert("param=?Sized".into());
        }
        rep.violation(Violation { symptom: codes.join(","), atoms, what: format!("derive_ex({}) via {} on `{}`: rustc reports in the generated code: {}", c.list.join(", "), c.entry.name(), c.item, bad.iter().map(|d| format!("{} {} {}", d.level, d.code, runner::first_line(&d.message))).collect::<Vec<_>>().join(" | ")), detail: json!({"gen": c.gen, "vector": c.vector, "tier": ctx.tier.name(), "entry": c.entry.name(), "list": c.list, "item": c.item, "description": c.desc, "diagnostics": bad.iter().map(|d| format!("{} {} {}", d.level, d.code, d.message)).collect::<Vec<_>>()}), standalone: Some(format!("{}\nfn main() {{}}\n", rcases[k].code)) });
    }
    rep.set("accepted_by_expander_and_compiled", json!(idx.len()));
    rep.set("rustc_invocations", json!(runner::STATS.rustc_invocations.load(std::sync::atomic::Ordering::Relaxed)));
    rep.set("rustc_rounds_max", json!(runner::STATS.rounds_max.load(std::sync::atomic::Ordering::Relaxed)));
}
