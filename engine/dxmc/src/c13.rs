//! C13 — generated code is hygienic: user-chosen names never change its meaning.
//! Channels R / X, metamorphic oracle (DESIGN.md 5/C13).

use crate::explore::{explore, replay, Ch};
use crate::report::{Report, Violation};
use crate::runner;
use crate::Ctx;
use serde_json::json;
use std::collections::BTreeSet;

#[derive(Clone, Copy, PartialEq, Eq, Debug)]
enum Role {
    Type,
    Field,
    Variant,
    TypeParam,
    ConstParam,
    Lifetime,
}

/// placeholder, neutral name, role
type Slot = (&'static str, &'static str, Role);

struct Prog {
    name: &'static str,
    slots: &'static [Slot],
    /// definitions (also compiled under #![no_std])
    def: &'static str,
    /// body of `run`: pushes onto `out`
    run: &'static str,
}

const SX: Slot = ("§X", "X", Role::Type);
const SA: Slot = ("§A", "A", Role::Variant);
const SB: Slot = ("§B", "B", Role::Variant);
const SC: Slot = ("§C", "C", Role::Variant);
const SP: Slot = ("§p", "p", Role::Field);
const SQ: Slot = ("§q", "q", Role::Field);
const ST: Slot = ("§T", "T", Role::TypeParam);
const SN: Slot = ("§N", "N", Role::ConstParam);
const SL: Slot = ("§L", "l", Role::Lifetime);

const PROGS: [Prog; 15] = [
    Prog {
        name: "all-traits-named-struct",
        slots: &[SX, SP, SQ, ST, SN],
        def: "#[derive_ex(Clone, Debug, Default, Ord, PartialOrd, Eq, PartialEq, Hash)]\npub struct §X<§T, const §N: usize> { pub §p: §T, pub §q: [u8; §N] }\npub mod tw { #[derive(Debug)] pub struct §X<§T, const §N: usize> { pub §p: §T, pub §q: [u8; §N] } }\n",
        run: "let a = §X::<i8, 2> { §p: 1, §q: [1, 2] }; let b = §X::<i8, 2> { §p: 1, §q: [1, 3] };\nlet ta = tw::§X::<i8, 2> { §p: 1, §q: [1, 2] };\nout.push_str(&::std::format!(\"{};{};{:?};{:?};{};{};{};{};\", a == b, a < b, ::core::cmp::Ord::cmp(&a, &b), ::core::cmp::PartialOrd::partial_cmp(&b, &a), ::dxrt::RecHasher::of(&a), ::core::clone::Clone::clone(&a) == a, ::std::format!(\"{:?}|{:#?}\", a, a) == ::std::format!(\"{:?}|{:#?}\", ta, ta), <§X::<i8, 2> as ::core::default::Default>::default() == §X::<i8, 2> { §p: 0, §q: [0, 0] }));",
    },
    Prog {
        name: "all-traits-tuple-struct",
        slots: &[SX, ST, SN],
        def: "#[derive_ex(Clone, Debug, Default, Ord, PartialOrd, Eq, PartialEq, Hash)]\npub struct §X<§T, const §N: usize>(pub §T, pub [u8; §N]);\npub mod tw { #[derive(Debug)] pub struct §X<§T, const §N: usize>(pub §T, pub [u8; §N]); }\n",
        run: "let a = §X::<i8, 2>(1, [1, 2]); let b = §X::<i8, 2>(1, [1, 3]);\nlet ta = tw::§X::<i8, 2>(1, [1, 2]);\nlet mut c = ::core::clone::Clone::clone(&b); ::core::clone::Clone::clone_from(&mut c, &a);\nout.push_str(&::std::format!(\"{};{};{:?};{:?};{};{};{};{};\", a == b, a < b, ::core::cmp::Ord::cmp(&a, &b), ::core::cmp::PartialOrd::partial_cmp(&b, &a), ::dxrt::RecHasher::of(&a), c == a, ::std::format!(\"{:?}|{:#?}\", a, a) == ::std::format!(\"{:?}|{:#?}\", ta, ta), <§X::<i8, 2> as ::core::default::Default>::default() == §X::<i8, 2>(0, [0, 0])));",
    },
    Prog {
        name: "all-traits-enum",
        slots: &[SX, SA, SB, SC, SP, SQ, ST, SL],
        def: "#[derive_ex(Clone, Debug, Default, Ord, PartialOrd, Eq, PartialEq, Hash)]\npub enum §X<'§L, §T> { #[default] §A, §B(&'§L §T, u8), §C { §p: §T, §q: u8 } }\npub mod tw { #[derive(Debug)] pub enum §X<'§L, §T> { §A, §B(&'§L §T, u8), §C { §p: §T, §q: u8 } } }\n",
        run: "static ONE: i8 = 1;\nlet vals = [§X::<'static, i8>::§A, §X::§B(&ONE, 2), §X::§B(&ONE, 3), §X::§C { §p: 1, §q: 2 }, §X::§C { §p: 2, §q: 0 }];\nlet tws = [tw::§X::<'static, i8>::§A, tw::§X::§B(&ONE, 2), tw::§X::§B(&ONE, 3), tw::§X::§C { §p: 1, §q: 2 }, tw::§X::§C { §p: 2, §q: 0 }];\nfor a in &vals { for b in &vals { out.push_str(&::std::format!(\"{}{}{:?}{:?},\", a == b, a < b, ::core::cmp::Ord::cmp(a, b), ::core::cmp::PartialOrd::partial_cmp(a, b))); } }\nfor (a, t) in vals.iter().zip(tws.iter()) { let mut c = ::core::clone::Clone::clone(&vals[4]); ::core::clone::Clone::clone_from(&mut c, a); out.push_str(&::std::format!(\"{};{};{};\", ::dxrt::RecHasher::of(a), &c == a, ::std::format!(\"{:?}|{:#?}\", a, a) == ::std::format!(\"{:?}|{:#?}\", t, t))); }\nout.push_str(&::std::format!(\"{}\", <§X::<'static, i8> as ::core::default::Default>::default() == §X::§A));",
    },
    Prog {
        name: "cmp-helpers-tuple-struct",
        slots: &[SX, ST],
        def: "#[derive_ex(Ord, PartialOrd, Eq, PartialEq, Hash, Debug)]\npub struct §X<§T>(#[ord(key = $.0)] pub (u8, §T), #[ord(reverse)] pub u8, #[ord(by = ::core::cmp::Ord::cmp)] #[hash(by = ::core::hash::Hash::hash)] pub i8, #[debug(ignore)] #[ord(ignore)] pub u8);\n",
        run: "let vals = [§X::<bool>((1, true), 2, 3, 4), §X((1, false), 2, 3, 9), §X((2, false), 1, 3, 4), §X((2, false), 2, -3, 4)];\nfor a in &vals { for b in &vals { out.push_str(&::std::format!(\"{}{:?}{:?},\", a == b, ::core::cmp::Ord::cmp(a, b), ::core::cmp::PartialOrd::partial_cmp(a, b))); } }\nfor a in &vals { out.push_str(&::std::format!(\"{};{};\", ::dxrt::RecHasher::of(a), ::std::format!(\"{:?}\", a).split('(').count())); }",
    },
    Prog {
        name: "cmp-helpers-enum",
        slots: &[SX, SA, SB, SP, SQ],
        def: "#[derive_ex(PartialOrd, Eq, PartialEq, Hash)]\npub enum §X { §A(#[ord(key = $ % 2)] u8, u8), §B { #[partial_ord(reverse)] §p: u8, #[eq(by = |a, b| a == b)] #[partial_ord(by = |a: &i8, b: &i8| ::core::cmp::PartialOrd::partial_cmp(a, b))] #[hash(key = $)] §q: i8 } }\n",
        run: "let vals = [§X::§A(1, 1), §X::§A(3, 1), §X::§A(2, 0), §X::§B { §p: 1, §q: 1 }, §X::§B { §p: 2, §q: 1 }, §X::§B { §p: 2, §q: -1 }];\nfor a in &vals { for b in &vals { out.push_str(&::std::format!(\"{}{:?},\", a == b, ::core::cmp::PartialOrd::partial_cmp(a, b))); } }\nfor a in &vals { out.push_str(&::std::format!(\"{};\", ::dxrt::RecHasher::of(a))); }",
    },
    Prog {
        name: "partial-ord-only-enum",
        slots: &[SX, SA, SB, SC, SP],
        def: "#[derive_ex(PartialOrd, PartialEq)]\npub enum §X { §A, §B(u8), §C { §p: u8 } }\n",
        run: "let vals = [§X::§A, §X::§B(1), §X::§B(2), §X::§C { §p: 0 }];\nfor a in &vals { for b in &vals { out.push_str(&::std::format!(\"{}{:?},\", a == b, ::core::cmp::PartialOrd::partial_cmp(a, b))); } }",
    },
    Prog {
        name: "operators-named-struct",
        slots: &[SX, SP, SQ, ST, SL],
        def: "#[derive_ex(Add, SubAssign, Neg, Not, Shl, BitXorAssign)]\npub struct §X<'§L, §T> { pub §p: §T, pub §q: i8, pub tag: ::dxrt::probe::Tag<&'§L §T> }\n",
        run: "let mk = |a: i8, b: i8| §X::<'static, i8> { §p: a, §q: b, tag: ::dxrt::probe::Tag(::core::marker::PhantomData) };\nlet r = mk(1, 2) + mk(3, 4); let r2 = &mk(1, 2) + &mk(3, 4); let r3 = -mk(1, 2); let r4 = !&mk(1, 2); let r5 = mk(1, 2) << &mk(1, 1);\nlet mut s = mk(9, 9); s -= mk(1, 2); s -= &mk(1, 1); s ^= mk(1, 1);\nout.push_str(&::std::format!(\"{},{};{},{};{},{};{},{};{},{};{},{}\", r.§p, r.§q, r2.§p, r2.§q, r3.§p, r3.§q, r4.§p, r4.§q, r5.§p, r5.§q, s.§p, s.§q));",
    },
    Prog {
        name: "operators-tuple-struct",
        slots: &[SX, ST],
        def: "#[derive_ex(Mul, DivAssign, Neg, Not, BitAnd, ShrAssign, Rem, BitOr, AddAssign, Sub)]\npub struct §X<§T>(pub §T, pub i8);\n",
        run: "let mk = |a: i8, b: i8| §X::<i8>(a, b);\nlet r = mk(3, 2) * mk(3, 4); let r2 = &mk(7, 2) % &mk(3, 4); let r3 = -&mk(1, 2); let r4 = !mk(1, 2); let r5 = &mk(5, 6) & mk(3, 3); let r6 = mk(1, 2) | &mk(4, 4); let r7 = mk(9, 9) - mk(1, 2);\nlet mut s = mk(64, 64); s /= mk(2, 4); s >>= &mk(1, 1); s += mk(1, 1);\nout.push_str(&::std::format!(\"{},{};{},{};{},{};{},{};{},{};{},{};{},{};{},{}\", r.0, r.1, r2.0, r2.1, r3.0, r3.1, r4.0, r4.1, r5.0, r5.1, r6.0, r6.1, r7.0, r7.1, s.0, s.1));",
    },
    Prog {
        name: "deref",
        slots: &[SX, SP, ST],
        def: "#[derive_ex(Deref, DerefMut)]\npub struct §X<§T> { pub §p: §T }\n",
        run: "let mut x = §X::<i8> { §p: 5 };\n*::core::ops::DerefMut::deref_mut(&mut x) += 1;\nout.push_str(&::std::format!(\"{};{}\", *::core::ops::Deref::deref(&x), x.§p));",
    },
    Prog {
        name: "copy-clone-default-enum",
        slots: &[SX, SA, SB, SP, ST],
        def: "#[derive_ex(Copy, Clone, Default, PartialEq)]\npub enum §X<§T> { §A(§T), #[default] §B { #[default(7)] §p: u8 } }\n",
        run: "let a = §X::<i8>::§A(3); let b = a; let c = ::core::clone::Clone::clone(&a);\nlet d = <§X::<i8> as ::core::default::Default>::default();\nout.push_str(&::std::format!(\"{};{};{}\", a == b, b == c, d == §X::§B { §p: 7 }));",
    },
    Prog {
        name: "default-values-struct",
        slots: &[SX, SP, SQ, SN],
        def: "pub const SEVEN: u8 = 7;\n#[derive_ex(Default, PartialEq)]\npub struct §X<const §N: usize> { #[default(SEVEN)] pub §p: u16, #[default([1; §N])] pub §q: [u8; §N] }\n",
        run: "let d = <§X::<2> as ::core::default::Default>::default();\nout.push_str(&::std::format!(\"{}\", d == §X::<2> { §p: 7, §q: [1, 1] }));",
    },
    Prog {
        name: "debug-attrs-enum",
        slots: &[SX, SA, SB, SP, SQ, ST],
        def: "#[derive_ex(Debug)]\npub enum §X<§T> { §A(#[debug(ignore)] §T, u8), §B { #[debug(transparent)] §p: i8, §q: u8 } }\npub mod tw { #[derive(Debug)] pub enum §X { §A(u8) } }\n",
        run: "let a = §X::<i8>::§A(1, 2); let b = §X::<i8>::§B { §p: -3, §q: 0 };\nout.push_str(&::std::format!(\"{};{}\", ::std::format!(\"{:?}|{:#?}\", a, a) == ::std::format!(\"{:?}|{:#?}\", tw::§X::§A(2), tw::§X::§A(2)), ::std::format!(\"{:?}|{:5?}\", b, b) == ::std::format!(\"{:?}|{:5?}\", -3i8, -3i8)));",
    },
    Prog {
        name: "user-impl-operator",
        slots: &[SX, SP],
        def: "#[derive(Clone)]\npub struct §X { pub §p: i8 }\n#[derive_ex(Sub, SubAssign)]\nimpl ::core::ops::Sub<&§X> for &§X { type Output = §X; fn sub(self, rhs: &§X) -> §X { §X { §p: self.§p - rhs.§p } } }\n",
        run: "let mk = |a: i8| §X { §p: a };\nlet r = mk(5) - mk(3); let r2 = mk(5) - &mk(1); let r3 = &mk(5) - mk(2); let mut s = mk(9); s -= mk(1); s -= &mk(2);\nout.push_str(&::std::format!(\"{};{};{};{}\", r.§p, r2.§p, r3.§p, s.§p));",
    },
    Prog {
        name: "hash-by-key-enum",
        slots: &[SX, SA, SB, SP, SQ, ST],
        def: "#[derive_ex(Hash, Clone)]\npub enum §X<§T> { §A { #[hash(by = |v: &u8, s| ::core::hash::Hash::hash(&(*v as u16), s))] §p: u8, #[hash(key = $.1)] §q: (§T, i8) }, §B }\n",
        run: "let vals = [§X::<bool>::§A { §p: 1, §q: (true, 2) }, §X::§A { §p: 3, §q: (false, 2) }, §X::§B];\nfor a in &vals { let c = ::core::clone::Clone::clone(a); out.push_str(&::std::format!(\"{};{};\", ::dxrt::RecHasher::of(a), ::dxrt::RecHasher::of(&c))); }",
    },
    Prog {
        name: "all-traits-enum-const",
        slots: &[SX, SA, SB, SN],
        def: "#[derive_ex(Clone, Debug, Default, Ord, PartialOrd, Eq, PartialEq, Hash)]\npub enum §X<const §N: usize> { #[default] §A, §B([u8; §N], u8) }\n",
        run: "let vals = [§X::<2>::§A, §X::§B([1, 2], 0), §X::§B([1, 3], 0), §X::§B([1, 2], 5)];\nfor a in &vals { for b in &vals { out.push_str(&::std::format!(\"{}{:?}{:?},\", a == b, ::core::cmp::PartialOrd::partial_cmp(a, b), ::core::cmp::Ord::cmp(a, b))); } let c = ::core::clone::Clone::clone(a); out.push_str(&::std::format!(\"{};{};\", &c == a, <§X<2> as ::core::default::Default>::default() == vals[0])); }",
    },
];

/// names the expansion introduces for its own locals / generics, raw keywords, prelude names
const GEN_NAMES: [&str; 27] = ["H", "T", "this", "other", "state", "f", "rhs", "source", "lhs", "o", "to_index", "_eq", "_f", "l_0", "_self_0", "_other_0", "hash", "cmp", "eq", "partial_cmp", "value", "_0", "builder", "DeriveExEqCheck", "derive_ex_eq_check", "derive_ex_debug_ref", "placeholder"];
const RAW_NAMES: [&str; 3] = ["r#type", "r#fn", "r#match"];
const PRELUDE_NAMES: [&str; 14] = ["Option", "Some", "None", "Eq", "Fn", "Clone", "Ordering", "Result", "Default", "Ok", "Vec", "Box", "Sized", "Copy"];
const LIFETIMES: [&str; 4] = ["a", "b", "__x", "r#fn"];

#[derive(Clone, Copy, PartialEq, Eq, Debug)]
enum Scope {
    Plain,
    Shadowed,
    NoStd,
}

const SHADOW: &str = "#[allow(dead_code)] pub struct Option; #[allow(dead_code)] pub struct Some; #[allow(dead_code)] pub struct None; #[allow(dead_code)] pub struct Ok; #[allow(dead_code)] pub struct Err;\npub trait Eq {} pub trait Fn {} pub trait Clone {} pub trait Default {} pub trait PartialEq {} pub trait Ord {} pub trait PartialOrd {} pub trait Hash {} pub trait Debug {} pub trait Copy {} pub trait Sized {} pub trait Into {} pub trait From {} pub trait Iterator {} pub trait Drop {} pub trait Send {} pub trait Sync {} pub trait FnMut {} pub trait FnOnce {} pub trait ToOwned {}\n#[allow(dead_code)] pub struct Ordering; #[allow(dead_code)] pub struct Result; #[allow(dead_code)] pub struct Vec; #[allow(dead_code)] pub struct Box; #[allow(dead_code)] pub struct String; #[allow(dead_code)] pub struct Formatter; #[allow(dead_code)] pub struct Hasher;\n#[allow(dead_code)] pub fn drop() {} #[allow(dead_code)] pub fn unreachable() {}\n#[allow(unused_macros)] macro_rules! unreachable { (reason $l:literal) => { loop {} }; }\n#[allow(unused_macros)] macro_rules! unimplemented { (reason $l:literal) => { loop {} }; }\n#[allow(unused_macros)] macro_rules! todo { (reason $l:literal) => { loop {} }; }\n#[allow(unused_macros)] macro_rules! matches { (reason $l:literal) => { false }; }\n#[allow(unused_macros)] macro_rules! debug_assert { (reason $l:literal) => { () }; }\n#[allow(unused_macros)] macro_rules! stringify { (reason $l:literal) => { \"\" }; }\n";

#[derive(Clone, Debug)]
struct Case {
    vector: Vec<usize>,
    prog: usize,
    /// (slot index, new name) pairs
    renames: Vec<(usize, String)>,
    scope: Scope,
}

fn names_for(role: Role, thorough: bool) -> Vec<String> {
    let mut v: Vec<String> = Vec::new();
    match role {
        Role::Lifetime => v.extend(LIFETIMES.iter().map(|s| s.to_string())),
        _ => {
            v.extend(GEN_NAMES.iter().map(|s| s.to_string()));
            v.extend(RAW_NAMES.iter().map(|s| s.to_string()));
            if thorough || role != Role::Field {
                v.extend(PRELUDE_NAMES.iter().map(|s| s.to_string()));
            }
            if role == Role::Field {
                // the sibling field's name with leading underscores (`p` next to `_p`, `q` next to `__q`)
                v.extend(["_p", "__p", "_q", "__q"].iter().map(|s| s.to_string()));
            }
        }
    }
    v
}

fn gen(ch: &mut Ch, thorough: bool) -> Option<Case> {
    let prog = ch.pick(PROGS.len());
    let p = &PROGS[prog];
    let scope = *ch.of(&[Scope::Plain, Scope::Shadowed, Scope::NoStd]);
    // number of renamed roles: 0, 1 (quick and thorough), 2 (thorough on the all-traits programs)
    let max_ren = if thorough && prog <= 2 { 2 } else { 1 };
    let mut renames: Vec<(usize, String)> = Vec::new();
    for si in 0..p.slots.len() {
        let names = names_for(p.slots[si].2, thorough);
        let k = ch.pick(names.len() + 1);
        if k == 0 {
            continue;
        }
        if renames.len() >= max_ren {
            return None;
        }
        let n = names[k - 1].clone();
        // a name must not collide with another name of the same program (that would change the user's own program)
        if p.slots.iter().enumerate().any(|(j, s)| j != si && s.1 == n && renames.iter().all(|r| r.0 != j)) {
            return None;
        }
        if renames.iter().any(|r| r.1 == n) {
            return None;
        }
        // `r#` lifetimes and raw names are not valid everywhere
        if p.slots[si].2 == Role::Lifetime && n.starts_with("r#") {
            return None;
        }
        if scope == Scope::Shadowed && SHADOW.contains(&format!(" {n};")) || scope == Scope::Shadowed && SHADOW.contains(&format!(" {n} {{}}")) {
            return None;
        }
        renames.push((si, n));
    }
    if !thorough {
        // quick: full dictionary on the three all-traits programs in plain + shadowed scope; the rest: generator names only, plain
        if prog > 2 {
            if let Some((_, n)) = renames.first() {
                if scope != Scope::Plain || !(GEN_NAMES.contains(&n.as_str()) || n == "r#type" || LIFETIMES.contains(&n.as_str())) {
                    return None;
                }
            }
        } else if scope == Scope::NoStd && !renames.is_empty() {
            return None;
        }
    } else if scope == Scope::NoStd && renames.len() > 1 {
        return None;
    }
    Some(Case { vector: ch.vector(), prog, renames, scope })
}

fn instantiate(c: &Case) -> String {
    let p = &PROGS[c.prog];
    let sub = |text: &str| -> String {
        let mut t = text.to_string();
        for (si, s) in p.slots.iter().enumerate() {
            let name = c.renames.iter().find(|r| r.0 == si).map(|r| r.1.clone()).unwrap_or_else(|| s.1.to_string());
            t = t.replace(s.0, &name);
        }
        t
    };
    let mut s = String::new();
    if c.scope == Scope::Shadowed {
        s.push_str(SHADOW);
    }
    s.push_str("use ::derive_ex::derive_ex;\n");
    s.push_str(&sub(p.def));
    if c.scope != Scope::NoStd {
        s.push_str("pub fn run() -> ::std::string::String {\n    let mut out = ::std::string::String::new();\n");
        s.push_str(&sub(p.run));
        s.push_str("\n    out\n}\n");
    }
    s
}

/// Names of primitive types: not reserved words, so a type or a type parameter can carry them; the scope that
/// defines such an item no longer sees the primitive under its short name.
const PRIMITIVES: [&str; 17] = ["bool", "usize", "u8", "str", "char", "isize", "i8", "i16", "i32", "i64", "i128", "u16", "u32", "u64", "u128", "f32", "f64"];

/// (program name, role, module body with `§P` for the name, `run` body); the definitions sit in a module of their own
/// whose only other names are `super::V` (all std traits) and `super::Yes` (all operators), so the scaffolding itself
/// never mentions a primitive inside that module
const PRIM_PROGS: [(&str, &str, &str, &str); 7] = [
    ("std-traits-enum", "Type", "#[derive_ex(Clone, Debug, Default, Ord, PartialOrd, Eq, PartialEq, Hash)]\npub enum §P { #[default] A, B(super::V, super::V), C { q: super::V } }\n",
     "let vals = [m::§P::A, m::§P::B(V(1), V(2)), m::§P::B(V(1), V(3)), m::§P::C { q: V(0) }];\nfor a in &vals { for b in &vals { out.push_str(&::std::format!(\"{}{:?}{:?},\", a == b, ::core::cmp::PartialOrd::partial_cmp(a, b), ::core::cmp::Ord::cmp(a, b))); } out.push_str(&::std::format!(\"{:?}|{:#?}|{}|{:?};\", a, ::core::clone::Clone::clone(a), dxrt::RecHasher::of(a), <m::§P as ::core::default::Default>::default())); }"),
    ("std-traits-struct", "Type", "#[derive_ex(Clone, Debug, Default, Ord, PartialOrd, Eq, PartialEq, Hash)]\npub struct §P(pub super::V, #[ord(key = $.0)] pub super::V);\n",
     "let vals = [m::§P(V(1), V(2)), m::§P(V(1), V(3)), m::§P(V(0), V(3))];\nfor a in &vals { for b in &vals { out.push_str(&::std::format!(\"{}{:?}{:?},\", a == b, ::core::cmp::PartialOrd::partial_cmp(a, b), ::core::cmp::Ord::cmp(a, b))); } out.push_str(&::std::format!(\"{}|{}|{};\", ::std::format!(\"{:?}\", ::core::clone::Clone::clone(a)).replace(\"§P\", \"X\"), dxrt::RecHasher::of(a), ::std::format!(\"{:?}\", <m::§P as ::core::default::Default>::default()).replace(\"§P\", \"X\"))); }"),
    ("operators-struct", "Type", "#[derive_ex(Add, SubAssign, Neg, Not, Clone)]\npub struct §P(pub super::Yes, pub super::Yes);\n",
     "let a = m::§P(Yes, Yes); let b = m::§P(Yes, Yes); let mut c = &a + &b; c -= &a; c -= ::core::clone::Clone::clone(&a); let d = -&c; let e = !d; let _ = (a + b) + &e; out.push_str(\"ok\");"),
    ("std-traits-generic-enum", "TypeParam", "#[derive_ex(Clone, Debug, Default, Ord, PartialOrd, Eq, PartialEq, Hash)]\npub enum X<§P> { #[default] A, B(§P, super::V), C { q: ::core::option::Option<§P> } }\n",
     "let vals = [m::X::<V>::A, m::X::B(V(1), V(2)), m::X::B(V(2), V(0)), m::X::C { q: ::core::option::Option::Some(V(0)) }];\nfor a in &vals { for b in &vals { out.push_str(&::std::format!(\"{}{:?}{:?},\", a == b, ::core::cmp::PartialOrd::partial_cmp(a, b), ::core::cmp::Ord::cmp(a, b))); } out.push_str(&::std::format!(\"{:?}|{:#?}|{}|{:?};\", a, ::core::clone::Clone::clone(a), dxrt::RecHasher::of(a), <m::X<V> as ::core::default::Default>::default())); }"),
    ("operators-generic-struct", "TypeParam", "#[derive_ex(Add, SubAssign, Neg, Not, Clone)]\npub struct X<§P>(pub §P, pub super::Yes);\n",
     "let a = m::X(Yes, Yes); let b = m::X(Yes, Yes); let mut c = &a + &b; c -= &a; c -= ::core::clone::Clone::clone(&a); let d = -&c; let e = !d; let _ = (a + b) + &e; out.push_str(\"ok\");"),
    // every nested helper function that `by = ..` generates (signatures mention bool / Option / Ordering / Hasher)
    ("by-helpers-struct", "Type", "#[derive_ex(Ord, PartialOrd, Eq, PartialEq, Hash)]\npub struct §P(#[ord(by = ::core::cmp::Ord::cmp)] #[hash(by = ::core::hash::Hash::hash)] pub super::V, #[ord(by = ::core::cmp::Ord::cmp)] #[partial_ord(by = ::core::cmp::PartialOrd::partial_cmp)] #[hash(by = ::core::hash::Hash::hash)] pub super::V, #[ord(by = ::core::cmp::Ord::cmp)] #[eq(by = ::core::cmp::PartialEq::eq)] #[hash(by = ::core::hash::Hash::hash)] pub super::V, #[ord(by = ::core::cmp::Ord::cmp)] #[partial_eq(by = ::core::cmp::PartialEq::eq)] #[hash(by = ::core::hash::Hash::hash)] pub super::V);\n",
     "let vals = [m::§P(V(1), V(2), V(0), V(1)), m::§P(V(1), V(3), V(0), V(1)), m::§P(V(1), V(3), V(1), V(0)), m::§P(V(0), V(3), V(1), V(1))];\nfor a in &vals { for b in &vals { out.push_str(&::std::format!(\"{}{:?}{:?},\", a == b, ::core::cmp::PartialOrd::partial_cmp(a, b), ::core::cmp::Ord::cmp(a, b))); } out.push_str(&::std::format!(\"{};\", dxrt::RecHasher::of(a))); }"),
    ("by-helpers-generic-struct", "TypeParam", "#[derive_ex(Ord, PartialOrd, Eq, PartialEq, Hash)]\npub struct X<§P>(#[ord(by = ::core::cmp::Ord::cmp)] #[hash(by = ::core::hash::Hash::hash)] pub super::V, #[ord(by = ::core::cmp::Ord::cmp)] #[partial_ord(by = ::core::cmp::PartialOrd::partial_cmp)] #[hash(by = ::core::hash::Hash::hash)] pub super::V, #[ord(by = ::core::cmp::Ord::cmp)] #[eq(by = ::core::cmp::PartialEq::eq)] #[hash(by = ::core::hash::Hash::hash)] pub super::V, #[ord(by = ::core::cmp::Ord::cmp)] #[partial_eq(by = ::core::cmp::PartialEq::eq)] #[hash(by = ::core::hash::Hash::hash)] pub super::V, pub §P);\n",
     "let vals = [m::X(V(1), V(2), V(0), V(1), V(0)), m::X(V(1), V(3), V(0), V(1), V(0)), m::X(V(1), V(3), V(1), V(0), V(0)), m::X(V(0), V(3), V(1), V(1), V(0))];\nfor a in &vals { for b in &vals { out.push_str(&::std::format!(\"{}{:?}{:?},\", a == b, ::core::cmp::PartialOrd::partial_cmp(a, b), ::core::cmp::Ord::cmp(a, b))); } out.push_str(&::std::format!(\"{};\", dxrt::RecHasher::of(a))); }"),
];

/// A blanket trait whose BY-VALUE methods carry the names of methods generated code might call with method syntax
/// (`x.finish()`, `x.field(..)`, `x.clone()`, ..): by-value candidates win over inherent `&self` / `&mut self` ones.
pub const HOSTILE: &str = "pub mod hostile {\n    pub trait Hostile: Sized {\n        fn finish(self) -> ::core::fmt::Result { ::core::result::Result::Err(::core::fmt::Error) }\n        fn field(self, _a: &str, _b: &dyn ::core::fmt::Debug) -> Self { self }\n        fn finish_non_exhaustive(self) -> ::core::fmt::Result { ::core::result::Result::Err(::core::fmt::Error) }\n        fn clone(self) -> Self { self }\n        fn clone_from(self, _o: &Self) {}\n        fn eq(self, _o: &Self) -> bool { false }\n        fn ne(self, _o: &Self) -> bool { false }\n        fn cmp(self, _o: &Self) -> ::core::cmp::Ordering { ::core::cmp::Ordering::Less }\n        fn partial_cmp(self, _o: &Self) -> ::core::option::Option<::core::cmp::Ordering> { ::core::option::Option::None }\n        fn hash(self, _h: &mut dyn ::core::hash::Hasher) {}\n        fn then(self, _o: ::core::cmp::Ordering) -> ::core::cmp::Ordering { ::core::cmp::Ordering::Less }\n        fn reverse(self) -> ::core::cmp::Ordering { ::core::cmp::Ordering::Less }\n        fn is_eq(self) -> bool { false }\n        fn into(self) -> Self { self }\n        fn neg(self) -> Self { self }\n        fn not(self) -> Self { self }\n        fn add(self, _o: Self) -> Self { self }\n        fn deref(self) -> Self { self }\n    }\n    impl<T> Hostile for T {}\n}\n";

fn prim_program(pi: usize, name: &str) -> String {
    let (_, _, def, run) = PRIM_PROGS[pi];
    let (name, hostile) = match name.strip_suffix("#hostile-methods") {
        Some(n) => (n, true),
        None => (name, false),
    };
    let (top, import) = if hostile { (HOSTILE, "use super::hostile::Hostile as _;\n") } else { ("", "") };
    ::std::format!("use dxrt::V;\nuse dxrt::probe::Yes;\n{top}pub mod m {{\nuse derive_ex::derive_ex;\n{import}{}}}\npub fn run() -> String {{\n    let mut out = String::new();\n    {}\n    out\n}}\n", def.replace("§P", name), run.replace("§P", name))
}

fn primitive_names(ctx: &Ctx, rep: &mut Report, only: Option<(usize, String)>) {
    let mut todo: Vec<(usize, String)> = Vec::new();
    match only {
        Some(x) => {
            todo.push((x.0, "Neutral".to_string()));
            todo.push(x);
        }
        None => {
            for pi in 0..PRIM_PROGS.len() {
                todo.push((pi, "Neutral".to_string()));
                for n in PRIMITIVES {
                    todo.push((pi, n.to_string()));
                }
                // the neutral name, but next to a trait in scope whose by-value methods shadow inherent ones
                todo.push((pi, "Hijack#hostile-methods".to_string()));
            }
        }
    }
    let progs: Vec<String> = todo.iter().map(|(pi, n)| prim_program(*pi, n)).collect();
    let mut o = runner::Opts::run("c13p");
    o.per_file = 30;
    let res = runner::run_cases(&progs.iter().map(|p| runner::Case { code: p.clone() }).collect::<Vec<_>>(), &o);
    let mut neutral: Vec<Option<String>> = vec![None; PRIM_PROGS.len()];
    for (k, (pi, n)) in todo.iter().enumerate() {
        if n == "Neutral" {
            // a neutral program that rustc refuses is a verdict (the case loop below reports it), not a machinery failure:
            // it uses documented features only and sits next to sibling modules `core` / `std` / `alloc`
            if res[k].output.is_none() && res[k].compiled() {
                crate::report::machinery(&format!("C13: the neutral primitive-name program `{}` does not compile/run: {}", PRIM_PROGS[*pi].0, res[k].codes()));
            }
            neutral[*pi] = res[k].output.clone();
        }
    }
    for (k, (pi, n)) in todo.iter().enumerate() {
        rep.stats.states += 1;
        rep.stats.transitions += 1;
        rep.stats.terminals += 1;
        rep.validated += 1;
        let (pname, role, _, _) = PRIM_PROGS[*pi];
        rep.case(&progs[k], n != "Neutral");
        if n == "Neutral" && res[k].compiled() {
            continue;
        }
        if n != "Neutral" && neutral[*pi].is_none() {
            continue;
        }
        let what = format!("primitive-name program `{pname}`, {role} named `{n}`");
        let mut atoms = BTreeSet::new();
        atoms.insert(format!("prog=primitive/{pname}"));
        atoms.insert(format!("role={role}"));
        atoms.insert(format!("name={n}"));
        atoms.insert(format!("{role}={n}"));
        let detail = json!({"kind": "primitive", "tier": ctx.tier.name(), "prim_prog": pi, "name": n, "role": role, "source": progs[k]});
        let r = &res[k];
        if !r.compiled() {
            rep.outcome(&format!("does-not-compile:{}", r.codes()));
            atoms.insert(format!("group={}", r.codes()));
            rep.violation(Violation { symptom: format!("renamed-program-does-not-compile:{}", r.codes()), atoms, what: format!("{what}: {}", r.errors().iter().map(|e| format!("{} {}", e.code, runner::first_line(&e.message))).collect::<Vec<_>>().join(" | ")), detail, standalone: Some(format!("mod case {{\n{}\n}}\nfn main() {{ case::run(); }}\n", progs[k])) });
            continue;
        }
        if let Some(pn) = &r.panicked {
            rep.violation(Violation { symptom: "panic".into(), atoms, what: format!("{what}: {pn}"), detail, standalone: None });
            continue;
        }
        let want = neutral[*pi].clone().unwrap_or_default();
        let got = r.output.clone().unwrap_or_default();
        rep.inner_evaluations += 1;
        if got != want {
            rep.outcome("trace-differs");
            rep.violation(Violation { symptom: "behaviour-changes-under-renaming".into(), atoms, what: format!("{what}: trace `{}` differs from the neutral program's `{}`", got.chars().take(200).collect::<String>(), want.chars().take(200).collect::<String>()), detail, standalone: None });
        } else {
            rep.outcome("same-trace-as-neutral");
        }
    }
}

/// Definitions that come out of a `macro_rules!` macro: (name, definition with §N type name / §T field type / §F field
/// name / §V variant name, `run` body written against X / V or Yes / a / B)
const MACRO_PROGS: [(&str, &str, &str, &str); 6] = [
    ("std-traits-named-struct", "V", "#[derive_ex(Clone, Debug, Default, Ord, PartialOrd, Eq, PartialEq, Hash)]\npub struct §N { pub §F: §T, pub q: §T }\n",
     "let vals = [X { a: V(1), q: V(2) }, X { a: V(1), q: V(3) }, X { a: V(0), q: V(3) }];\nfor x in &vals { for y in &vals { out.push_str(&::std::format!(\"{}{:?}{:?},\", x == y, ::core::cmp::PartialOrd::partial_cmp(x, y), ::core::cmp::Ord::cmp(x, y))); } out.push_str(&::std::format!(\"{:?}|{:#?}|{}|{:?};\", x, ::core::clone::Clone::clone(x), dxrt::RecHasher::of(x), <X as ::core::default::Default>::default())); }"),
    ("std-traits-enum", "V", "#[derive_ex(Clone, Debug, Default, Ord, PartialOrd, Eq, PartialEq, Hash)]\npub enum §N { #[default] A, §V(§T, §T), C { §F: §T } }\n",
     "let vals = [X::A, X::B(V(1), V(2)), X::B(V(1), V(3)), X::C { a: V(0) }];\nfor x in &vals { for y in &vals { out.push_str(&::std::format!(\"{}{:?}{:?},\", x == y, ::core::cmp::PartialOrd::partial_cmp(x, y), ::core::cmp::Ord::cmp(x, y))); } out.push_str(&::std::format!(\"{:?}|{:#?}|{}|{:?};\", x, ::core::clone::Clone::clone(x), dxrt::RecHasher::of(x), <X as ::core::default::Default>::default())); }"),
    ("cmp-helpers-tuple-struct", "V", "#[derive_ex(Ord, PartialOrd, Eq, PartialEq, Hash, Debug)]\npub struct §N(#[ord(reverse)] pub §T, #[ord(by = ::core::cmp::Ord::cmp)] #[hash(by = ::core::hash::Hash::hash)] pub §T, #[debug(ignore)] #[ord(ignore)] pub §T);\n",
     "let vals = [X(V(1), V(2), V(0)), X(V(1), V(3), V(1)), X(V(0), V(3), V(2)), X(V(1), V(2), V(5))];\nfor x in &vals { for y in &vals { out.push_str(&::std::format!(\"{}{:?}{:?},\", x == y, ::core::cmp::PartialOrd::partial_cmp(x, y), ::core::cmp::Ord::cmp(x, y))); } out.push_str(&::std::format!(\"{:?}|{};\", x, dxrt::RecHasher::of(x))); }"),
    ("operators-struct", "Yes", "#[derive_ex(Add, SubAssign, Neg, Not, Clone)]\npub struct §N(pub §T, pub §T);\n",
     "let x = X(Yes, Yes); let y = X(Yes, Yes); let mut c = &x + &y; c -= &x; c -= ::core::clone::Clone::clone(&x); let d = -&c; let e = !d; let _ = (x + y) + &e; out.push_str(\"ok\");"),
    // key templates: only explored with the helper attributes passed in as `meta` fragments (`$` cannot be written in a macro body)
    ("keys-tuple-struct", "V", "#[derive_ex(Ord, PartialOrd, Eq, PartialEq, Hash, Debug)]\npub struct §N(#[ord(key = $.0)] #[hash(key = $.0 + 1)] pub §T, #[eq(key = $.0 % 2)] #[ord(key = $.0 % 2)] pub §T, #[debug(ignore)] pub §T);\n",
     "let vals = [X(V(1), V(2), V(0)), X(V(1), V(3), V(1)), X(V(0), V(4), V(2)), X(V(1), V(2), V(5))];\nfor x in &vals { for y in &vals { out.push_str(&::std::format!(\"{}{:?}{:?},\", x == y, ::core::cmp::PartialOrd::partial_cmp(x, y), ::core::cmp::Ord::cmp(x, y))); } out.push_str(&::std::format!(\"{:?}|{};\", x, dxrt::RecHasher::of(x))); }"),
    ("deref-struct", "V", "#[derive_ex(Deref, DerefMut)]\npub struct §N(pub §T);\n",
     "let mut x = X(V(3)); (*x).0 += 1; out.push_str(&::std::format!(\"{:?}\", *x));"),
];
const FRAGMENTS: [&str; 5] = ["ident", "ty", "tt", "path", "meta"];

fn macro_program(pi: usize, frag: Option<&str>) -> String {
    let (_, fty, def, run) = MACRO_PROGS[pi];
    let direct = def.replace("§N", "X").replace("§T", fty).replace("§F", "a").replace("§V", "B");
    let d = match frag {
        None => direct,
        // the helper attributes (incl. their key / by expressions) arrive as `meta` fragments of the macro call
        Some("meta") => {
            let (head, item) = direct.split_once('\n').unwrap_or(("", ""));
            crate::gen::macroize_helper_attrs(head, item).unwrap_or(direct.clone())
        }
        Some(f) => ::std::format!("macro_rules! mk {{ ($n:ident, $t:{f}, $f:ident, $v:ident) => {{ {} }} }}\nmk!(X, {fty}, a, B);\n", def.replace("§N", "$n").replace("§T", "$t").replace("§F", "$f").replace("§V", "$v")),
    };
    ::std::format!("use derive_ex::derive_ex;\nuse dxrt::V;\nuse dxrt::probe::Yes;\n{d}pub fn run() -> String {{\n    let mut out = String::new();\n    {run}\n    out\n}}\n")
}

fn macro_generated(ctx: &Ctx, rep: &mut Report, only: Option<(usize, String)>) {
    let mut todo: Vec<(usize, Option<&str>)> = Vec::new();
    for pi in 0..MACRO_PROGS.len() {
        if let Some((p, _)) = &only {
            if *p != pi {
                continue;
            }
        }
        todo.push((pi, None));
        for f in FRAGMENTS {
            let has_dollar = MACRO_PROGS[pi].2.contains('$');
            let has_helper = MACRO_PROGS[pi].2.contains("#[ord(") || MACRO_PROGS[pi].2.contains("#[debug(") || MACRO_PROGS[pi].2.contains("#[hash(");
            if (f == "meta") != has_dollar && !(f == "meta" && has_helper) {
                continue;
            }
            if only.as_ref().map(|o| o.1 == f).unwrap_or(true) {
                todo.push((pi, Some(f)));
            }
        }
    }
    let progs: Vec<String> = todo.iter().map(|(pi, f)| macro_program(*pi, *f)).collect();
    let mut o = runner::Opts::run("c13m");
    o.per_file = 10;
    let res = runner::run_cases(&progs.iter().map(|p| runner::Case { code: p.clone() }).collect::<Vec<_>>(), &o);
    let mut neutral: Vec<Option<String>> = vec![None; MACRO_PROGS.len()];
    for (k, (pi, f)) in todo.iter().enumerate() {
        if f.is_none() {
            if res[k].output.is_none() && res[k].compiled() {
                crate::report::machinery(&format!("C13: the directly written program `{}` does not compile/run: {}", MACRO_PROGS[*pi].0, res[k].codes()));
            }
            neutral[*pi] = res[k].output.clone();
        }
    }
    for (k, (pi, f)) in todo.iter().enumerate() {
        rep.stats.states += 1;
        rep.stats.transitions += 1;
        rep.stats.terminals += 1;
        rep.validated += 1;
        rep.case(&progs[k], f.is_some());
        if f.is_none() && res[k].compiled() {
            continue;
        }
        if f.is_some() && neutral[*pi].is_none() {
            continue;
        }
        let f = f.unwrap_or("(none: written directly)");
        let pname = MACRO_PROGS[*pi].0;
        let what = format!("program `{pname}` generated by a macro_rules! macro (derive_ex in the macro body; names as ident fragments, the field type as a `{f}` fragment)");
        let mut atoms = BTreeSet::new();
        atoms.insert(format!("prog=macro/{pname}"));
        atoms.insert(format!("fragment={f}"));
        let detail = json!({"kind": "macro", "tier": ctx.tier.name(), "macro_prog": pi, "fragment": f, "source": progs[k]});
        let r = &res[k];
        if !r.compiled() {
            rep.outcome(&format!("does-not-compile:{}", r.codes()));
            atoms.insert(format!("group={}", r.codes()));
            rep.violation(Violation { symptom: format!("macro-generated-program-does-not-compile:{}", r.codes()), atoms, what: format!("{what}: {}", r.errors().iter().map(|e| format!("{} {}", e.code, runner::first_line(&e.message))).collect::<Vec<_>>().join(" | ")), detail, standalone: Some(format!("mod case {{\n{}\n}}\nfn main() {{ case::run(); }}\n", progs[k])) });
            continue;
        }
        if let Some(pn) = &r.panicked {
            rep.violation(Violation { symptom: "panic".into(), atoms, what: format!("{what}: {pn}"), detail, standalone: None });
            continue;
        }
        let want = neutral[*pi].clone().unwrap_or_default();
        let got = r.output.clone().unwrap_or_default();
        rep.inner_evaluations += 1;
        if got != want {
            rep.outcome("trace-differs");
            rep.violation(Violation { symptom: "behaviour-changes-when-macro-generated".into(), atoms, what: format!("{what}: trace `{}` differs from the directly written program's `{}`", got.chars().take(200).collect::<String>(), want.chars().take(200).collect::<String>()), detail, standalone: None });
        } else {
            rep.outcome("same-trace-as-directly-written");
        }
    }
}

pub fn run(ctx: &Ctx, rep: &mut Report) {
    let thorough = ctx.tier.is_thorough();
    rep.rule = "terminal state = (one of 14 base programs covering every derivable trait with and without helper attributes on tuple/named structs, enums and a user impl, with type / const / lifetime parameters; zero, one (or two, thorough) roles [type, field, variant, type parameter, const parameter, lifetime] renamed to a name of the hostile dictionary [22 names the expansion introduces, 3 raw keywords, 14 prelude names, 4 lifetimes]; scope in {plain, module whose local items shadow prelude and core/std/alloc names, #![no_std] metadata-only crate}); oracle = the variant compiles and prints the same behaviour trace as the neutral program in the plain scope; distinct by program text; non-trivial = at least one renaming or a non-plain scope".into();
    rep.assumptions = vec!["the generator's own scaffolding uses absolute ::core / ::std paths and operators only, so that only derive_ex's output is exposed to the shadowing; Debug output is compared inside the program against a std-derived twin carrying the same names".into(), "names starting with a double underscore are excluded (reserved for the generator)".into()];
    let mut cases: Vec<Case> = Vec::new();
    if let Some(p) = &ctx.replay {
        let v: serde_json::Value = serde_json::from_str(&std::fs::read_to_string(p).expect("replay file")).expect("replay json");
        if v["case"]["kind"] == "macro" {
            macro_generated(ctx, rep, Some((v["case"]["macro_prog"].as_u64().unwrap_or(0) as usize, v["case"]["fragment"].as_str().unwrap_or("ident").to_string())));
            return;
        }
        if v["case"]["kind"] == "primitive" {
            primitive_names(ctx, rep, Some((v["case"]["prim_prog"].as_u64().unwrap_or(0) as usize, v["case"]["name"].as_str().unwrap_or("bool").to_string())));
            return;
        }
        let vec: Vec<usize> = v["case"]["vector"].as_array().unwrap().iter().map(|x| x.as_u64().unwrap() as usize).collect();
        let th = v["case"]["tier"] == "thorough";
        let c = replay(|ch| gen(ch, th), &vec).unwrap_or_else(|| crate::report::machinery("replayed vector is pruned"));
        // plus its neutral baseline
        cases.push(Case { vector: vec![], prog: c.prog, renames: vec![], scope: Scope::Plain });
        cases.push(c);
    } else {
        let st = explore(|ch| gen(ch, thorough), |_, c| cases.push(c));
        rep.stats.add(&st);
    }
    let run_idx: Vec<usize> = (0..cases.len()).filter(|&i| cases[i].scope != Scope::NoStd).collect();
    let nostd_idx: Vec<usize> = (0..cases.len()).filter(|&i| cases[i].scope == Scope::NoStd).collect();
    let progs: Vec<String> = cases.iter().map(instantiate).collect();
    let mut o = runner::Opts::run("c13");
    o.per_file = 60;
    let res_run = runner::run_cases(&run_idx.iter().map(|&i| runner::Case { code: progs[i].clone() }).collect::<Vec<_>>(), &o);
    let mut o2 = runner::Opts::check("c13n");
    o2.no_std = true;
    o2.per_file = 60;
    let res_ns = runner::run_cases(&nostd_idx.iter().map(|&i| runner::Case { code: progs[i].clone() }).collect::<Vec<_>>(), &o2);
    // neutral traces
    let mut neutral: Vec<Option<String>> = vec![None; PROGS.len()];
    for (k, &i) in run_idx.iter().enumerate() {
        if cases[i].renames.is_empty() && cases[i].scope == Scope::Plain {
            neutral[cases[i].prog] = res_run[k].output.clone();
            if res_run[k].output.is_none() && res_run[k].compiled() {
                crate::report::machinery(&format!("C13: the neutral base program `{}` does not compile/run: {} {:?}", PROGS[cases[i].prog].name, res_run[k].codes(), res_run[k].errors().iter().map(|e| runner::first_line(&e.message)).collect::<Vec<_>>()));
            }
        }
    }
    let mut results: Vec<(usize, &runner::CaseResult)> = Vec::new();
    for (k, &i) in run_idx.iter().enumerate() {
        results.push((i, &res_run[k]));
    }
    for (k, &i) in nostd_idx.iter().enumerate() {
        results.push((i, &res_ns[k]));
    }
    results.sort_by_key(|r| r.0);
    for (i, r) in results {
        let c = &cases[i];
        let p = &PROGS[c.prog];
        rep.validated += 1;
        let ren: Vec<String> = c.renames.iter().map(|(si, n)| format!("{:?} {}->{}", p.slots[*si].2, p.slots[*si].1, n)).collect();
        let what = format!("base program `{}`, scope {:?}, renaming [{}]", p.name, c.scope, ren.join(", "));
        rep.case(&progs[i], !c.renames.is_empty() || c.scope != Scope::Plain);
        let mut atoms = BTreeSet::new();
        atoms.insert(format!("prog={}", p.name));
        atoms.insert(format!("scope={:?}", c.scope));
        for (si, n) in &c.renames {
            atoms.insert(format!("role={:?}", p.slots[*si].2));
            atoms.insert(format!("name={n}"));
            atoms.insert(format!("{:?}={}", p.slots[*si].2, n));
        }
        let detail = json!({"vector": c.vector, "tier": ctx.tier.name(), "program": p.name, "scope": format!("{:?}", c.scope), "renames": ren, "source": progs[i]});
        if !r.compiled() {
            rep.outcome(&format!("does-not-compile:{}", r.codes()));
            atoms.insert(format!("group={}", r.codes()));
            rep.violation(Violation { symptom: format!("renamed-program-does-not-compile:{}", r.codes()), atoms, what: format!("{what}: {}", r.errors().iter().map(|e| format!("{} {}", e.code, runner::first_line(&e.message))).collect::<Vec<_>>().join(" | ")), detail, standalone: Some(format!("mod case {{\n{}\n}}\nfn main() {{}}\n", progs[i])) });
            continue;
        }
        if c.scope == Scope::NoStd {
            rep.outcome("no_std:compiles");
            continue;
        }
        if let Some(pn) = &r.panicked {
            rep.violation(Violation { symptom: "panic".into(), atoms, what: format!("{what}: {pn}"), detail, standalone: None });
            continue;
        }
        let Some(want) = neutral[c.prog].clone() else { continue };
        let got = r.output.clone().unwrap_or_default();
        rep.inner_evaluations += 1;
        if got != want {
            rep.outcome("trace-differs");
            rep.violation(Violation { symptom: "behaviour-changes-under-renaming".into(), atoms, what: format!("{what}: trace `{}` differs from the neutral program's `{}`", got.chars().take(200).collect::<String>(), want.chars().take(200).collect::<String>()), detail, standalone: Some(format!("mod case {{\n{}\n}}\nfn main() {{ assert_eq!(case::run(), {:?}); }}\n", progs[i], want)) });
        } else {
            rep.outcome("same-trace-as-neutral");
            if rep.samples.len() < 4 && !c.renames.is_empty() && c.scope == Scope::Shadowed {
                rep.sample(json!({"what": what, "trace": got.chars().take(160).collect::<String>()}));
            }
        }
    }
    if ctx.replay.is_none() {
        primitive_names(ctx, rep, None);
        macro_generated(ctx, rep, None);
    }
    rep.set("base_programs", json!(PROGS.iter().map(|p| p.name).collect::<Vec<_>>()));
    rep.set("macro_generated_programs", json!(MACRO_PROGS.iter().map(|p| p.0).collect::<Vec<_>>()));
    rep.set("primitive_name_programs", json!(PRIM_PROGS.iter().map(|p| format!("{} ({})", p.0, p.1)).collect::<Vec<_>>()));
    rep.set("rustc_invocations", json!(runner::STATS.rustc_invocations.load(std::sync::atomic::Ordering::Relaxed)));
}
