//! C14 — the item is re-emitted unchanged apart from derive_ex's own attributes (channel E).

use crate::expand::{self, flat_str, lex, OutItem};
use crate::explore::{explore, par_map, replay, threads, Ch};
use crate::gen::*;
use crate::refmodel::{recognised, Tr};
use crate::report::{Report, Violation};
use crate::seeds::traits_of_attr;
use crate::Ctx;
use quote::ToTokens;
use serde_json::json;
use std::collections::BTreeSet;

/// derivable traits that own helper attributes
const ALL_TRAITS: [&str; 7] = ["Debug", "Default", "PartialEq", "Eq", "PartialOrd", "Ord", "Hash"];
const HELPERS: [&str; 8] = ["derive_ex", "debug", "default", "ord", "partial_ord", "eq", "partial_eq", "hash"];

/// (text, placement mask: 1 type, 2 variant, 4 field)
const POOL: [(&str, u8); 19] = [
    ("#[doc = \" doc comment\"]", 7),
    ("#[allow(unused)]", 7),
    ("#[cfg_attr(all(), allow(dead_code))]", 7),
    ("#[serde(rename = \"a\")]", 7),
    ("#[a::b(c)]", 7),
    ("#[repr(C)]", 1),
    ("#[foo::debug]", 7),
    ("#[non_exhaustive]", 3),
    // helper-named
    ("#[debug(bound(T))]", 7),
    ("#[debug(ignore)]", 4),
    ("#[default]", 6),
    ("#[default(_, bound(T))]", 7),
    ("#[ord(bound(T))]", 7),
    ("#[eq(bound(..))]", 7),
    ("#[hash(ignore)]", 4),
    ("#[partial_ord(reverse)]", 4),
    ("#[partial_eq(bound())]", 7),
    ("#[derive_ex(Clone(bound()))]", 6),
    ("#[::derive_ex::derive_ex(Clone(bound()))]", 6),
];
// (the crate-qualified spelling names the same attribute: a further list of the item, consumed like the others)
const TYPE_ONLY_EXTRA: [&str; 4] = ["#[derive_ex(Debug)]", "#[derive_ex(Hash, bound(T))]", "#[derive_ex::derive_ex(Clone)]", "#[::derive_ex::derive_ex(Clone)]"];

const LISTS: [&str; 11] = ["Clone", "Debug", "Default", "PartialEq", "Ord, PartialOrd, Eq, PartialEq", "Hash", "Clone, Debug, Default", "PartialOrd, PartialEq, Hash", "Copy, Clone, Debug, Default, Ord, PartialOrd, Eq, PartialEq, Hash", "PartialOrd", "Eq"];
const VIS: [&str; 4] = ["", "pub", "pub(crate)", "pub(in self)"];
const GENERICS: [(&str, &str); 4] = [("<T>", ""), ("<T = u8, const N: usize = 3>", ""), ("<'a, T: 'a + Clone>", "where T: Copy, &'a T: Sized"), ("", "")];

#[derive(Clone, Debug)]
struct Case {
    vector: Vec<usize>,
    attr: String,
    input: String,
    /// expected re-emitted item when derivation succeeds
    expected: String,
    kind: &'static str,
}

fn attr_name(a: &str) -> Option<String> {
    // single-identifier path?
    let inner = a.trim().strip_prefix("#[")?;
    let inner = inner.strip_prefix("::").unwrap_or(inner);
    let inner = inner.strip_prefix("derive_ex::derive_ex").map(|r| format!("derive_ex{r}")).unwrap_or_else(|| inner.to_string());
    let inner = inner.as_str();
    let end = inner.find(|c: char| !(c.is_alphanumeric() || c == '_'))?;
    let name = &inner[..end];
    if inner[end..].starts_with("::") {
        return None;
    }
    Some(name.to_string())
}

fn owned(a: &str, derived: &[String]) -> bool {
    let Some(n) = attr_name(a) else { return false };
    let cmp: Vec<Tr> = derived.iter().filter_map(|d| Tr::from_name(d)).collect();
    match n.as_str() {
        "derive_ex" => true,
        "debug" => derived.iter().any(|d| d == "Debug"),
        "default" => derived.iter().any(|d| d == "Default"),
        other => match Tr::ALL.iter().find(|t| t.attr() == other) {
            Some(t) => recognised(*t, &cmp),
            None => false,
        },
    }
}

fn pick_seq(ch: &mut Ch, place: u8, max_len: usize, budget: &mut usize, type_level: bool) -> Option<Vec<String>> {
    let mut pool: Vec<&str> = POOL.iter().filter(|p| p.1 & place != 0).map(|p| p.0).collect();
    if type_level {
        pool.extend(TYPE_ONLY_EXTRA);
    }
    let len = ch.pick(max_len + 1);
    if len > *budget {
        return None;
    }
    *budget -= len;
    let mut v = Vec::new();
    for _ in 0..len {
        v.push(ch.of(&pool).to_string());
    }
    Some(v)
}

fn gen(ch: &mut Ch, thorough: bool) -> Option<Case> {
    let mut budget: usize = if thorough { 3 } else { 2 };
    let kind = *ch.of(&["named-struct", "tuple-struct", "unit-struct", "enum"]);
    let list = *ch.of(&LISTS);
    let vis = *ch.of(&VIS);
    if !vis.is_empty() {
        if budget == 0 {
            return None;
        }
        budget -= 1;
    }
    let gi = ch.pick(GENERICS.len());
    let (generics, wh) = GENERICS[gi];
    if gi != 0 {
        if budget == 0 {
            return None;
        }
        budget -= 1;
    }
    let max_len = 3;
    let tattrs = pick_seq(ch, 1, max_len, &mut budget, true)?;
    let (vattrs, fattrs) = match kind {
        "enum" => (pick_seq(ch, 2, max_len, &mut budget, false)?, pick_seq(ch, 4, max_len, &mut budget, false)?),
        "unit-struct" => (vec![], vec![]),
        _ => (vec![], pick_seq(ch, 4, max_len, &mut budget, false)?),
    };
    // explicit discriminant: 0 none, 1 on the unit variant A, 2 on the attributed tuple variant B (`B(..) = 5`)
    let discr = if kind == "enum" { ch.pick(3) } else { 0 };
    // the derived set, extended by type-level derive_ex attributes
    let mut derived = traits_of_attr(list);
    for a in &tattrs {
        if attr_name(a).as_deref() == Some("derive_ex") {
            let inner = a.trim_start_matches("#[::derive_ex::derive_ex(").trim_start_matches("#[derive_ex::derive_ex(").trim_start_matches("#[derive_ex(").trim_end_matches(")]");
            derived.extend(traits_of_attr(inner));
        }
    }
    // I1: never `#[partial_eq]` unless PartialEq is derived
    if !derived.iter().any(|d| d == "PartialEq") && tattrs.iter().chain(&vattrs).chain(&fattrs).any(|a| attr_name(a).as_deref() == Some("partial_eq")) {
        return None;
    }
    let build = |strip: bool| -> String {
        let keep = |v: &Vec<String>| -> Vec<String> { v.iter().filter(|a| !(strip && owned(a, &derived))).cloned().collect() };
        let fty = if generics.contains('T') { "Option<T>" } else { "u8" };
        let mut item = match kind {
            "named-struct" => ItemDef::strukt("X", generics, FieldsDef::Named(vec![FieldDef { attrs: keep(&fattrs), vis: vis.to_string(), name: Some("zeta".into()), ty: fty.into() }, FieldDef::named("alpha", "u16")])),
            "tuple-struct" => ItemDef::strukt("X", generics, FieldsDef::Tuple(vec![FieldDef::tuple("u16"), FieldDef { attrs: keep(&fattrs), vis: vis.to_string(), name: None, ty: fty.into() }])),
            "unit-struct" => ItemDef::strukt("X", generics, FieldsDef::Unit),
            _ => {
                let mut a = VariantDef::new("A", FieldsDef::Unit);
                if discr == 1 {
                    a.discr = Some("3".into());
                }
                let mut b = VariantDef::new("B", FieldsDef::Tuple(vec![FieldDef { attrs: keep(&fattrs), vis: String::new(), name: None, ty: fty.into() }, FieldDef::tuple("u16")]));
                b.attrs = keep(&vattrs);
                if discr == 2 {
                    b.discr = Some("5".into());
                }
                let c = VariantDef::new("C", FieldsDef::Named(vec![FieldDef::named("x", "u8")]));
                ItemDef::enm("X", generics, vec![a, b, c])
            }
        };
        item.attrs = keep(&tattrs);
        item.vis = vis.to_string();
        item.where_ = wh.to_string();
        item.print()
    };
    Some(Case { vector: ch.vector(), attr: list.to_string(), input: build(false), expected: build(true), kind })
}

/// All interleavings of up to 3 (quick) / 4 (thorough) attributes from a reduced pool at ONE placement.
fn gen_interleave(ch: &mut Ch, thorough: bool) -> Option<Case> {
    let pool = ["#[doc = \" d\"]", "#[allow(unused)]", "#[foo::debug]", "#[debug(bound(T))]", "#[ord(bound(T))]", "#[derive_ex(Clone(bound()))]"];
    let place = ch.pick(3); // 0 type, 1 variant, 2 field
    let is_enum = ch.flag();
    if place == 1 && !is_enum {
        return None;
    }
    let list = "Clone, Debug, Ord, PartialOrd, Eq, PartialEq";
    let len = 1 + ch.pick(if thorough { 4 } else { 3 });
    let mut seq = Vec::new();
    for _ in 0..len {
        seq.push(ch.of(&pool).to_string());
    }
    let derived = traits_of_attr(list);
    let build = |strip: bool| -> String {
        let s: Vec<String> = seq.iter().filter(|a| !(strip && owned(a, &derived))).cloned().collect();
        let at = |p: usize| if p == place { s.join(" ") } else { String::new() };
        if is_enum {
            format!("{} pub enum X<T> {{ A, {} B({} T, u8), C {{ x: u8 }} }}", at(0), at(1), at(2))
        } else {
            format!("{} pub struct X<T> {{ pub zeta: u8, {} alpha: T }}", at(0), at(2))
        }
    };
    Some(Case { vector: ch.vector(), attr: list.to_string(), input: build(false), expected: build(true), kind: "interleave" })
}

/// Inputs on which derivation fails as a whole, and unsupported item kinds.
fn failing_cases() -> Vec<Case> {
    let mut v = Vec::new();
    let foreign = "#[doc = \" keep me\"] #[allow(unused)] #[a::b(c)]";
    let items = [
        format!("{foreign} pub struct X<T = u8> where T: Copy {{ #[serde(skip)] pub a: T, #[debug(ignore)] b: u8 }}"),
        format!("{foreign} pub(crate) enum X {{ #[doc = \"v\"] A = 1, #[default] B(#[allow(unused)] u8), C {{ #[ord(ignore)] x: u8 }} }}"),
        format!("{foreign} struct X(#[cfg_attr(all(), allow(dead_code))] pub u8, u16);"),
    ];
    let items = [
        items[0].clone(),
        items[1].clone(),
        items[2].clone(),
        // a standard derive below derive_ex owns `#[default]`; helper-named attributes of traits the bad list does not name
        format!("{foreign} #[derive(Default)] pub enum X {{ A(u8), #[default] B, C {{ #[hash(ignore)] x: u8 }} }}"),
        format!("{foreign} #[eq(by = f)] pub struct X {{ #[default(5)] pub a: u8, #[partial_ord(reverse)] b: u8 }}"),
    ];
    let bad_attrs = ["Foo", "Clone(xyz)", "Clone, Foo, Debug", "Clone, bound = 1", "\"lit\"", "Clone(bound(T T))", "Debug, dump(1)"];
    for it in &items {
        for a in bad_attrs {
            v.push(Case { vector: vec![], attr: a.to_string(), input: it.clone(), expected: it.clone(), kind: "bad-arguments" });
        }
    }
    // malformed / misplaced helper attributes
    for (attr, it) in [
        ("Ord, PartialOrd, Eq, PartialEq", format!("{foreign} #[ord(key = $)] struct X(u8);")),
        ("Debug", format!("{foreign} struct X {{ #[debug(ignor)] #[doc = \"f\"] a: u8 }}")),
        ("Debug", format!("{foreign} enum X {{ #[doc = \"v\"] A(#[debug(ignor)] u8), #[allow(unused)] B }}")),
        ("Default", format!("{foreign} enum X {{ #[doc = \"v\"] A, B }}")),
        ("Default", format!("{foreign} enum X {{ #[default(1)] A, #[doc = \"v\"] B }}")),
        ("Hash", format!("{foreign} struct X(#[hash(ignore = 1)] #[doc = \"f\"] u8);")),
        ("Debug", format!("{foreign} struct X(#[debug = \"x\"] u8);")),
        ("Debug", format!("{foreign} struct X(#[debug(ignore)] #[debug(ignore)] u8);")),
        ("Deref", format!("{foreign} struct X(u8, #[doc = \"f\"] u8);")),
        ("Add", format!("{foreign} enum X {{ #[doc = \"v\"] A }}")),
        // Deref / DerefMut on structs without a field
        ("Deref", format!("{foreign} struct X;")),
        ("DerefMut", format!("{foreign} pub struct X();")),
        ("Deref, DerefMut", format!("{foreign} struct X {{}}")),
        ("Debug, Deref", format!("{foreign} #[debug(bound())] struct X;")),
        ("Not, Debug, Default", format!("{foreign} #[derive(Clone)] #[repr(u8)] enum X {{ #[default] A {{ #[debug(ignore)] x: u8 }} = 1, #[doc = \"v\"] B = 2 }}")),
        ("Debug, Add", format!("{foreign} enum X {{ A(#[debug(ignore)] u8), #[allow(unused)] B }}")),
    ] {
        v.push(Case { vector: vec![], attr: attr.to_string(), input: it.clone(), expected: it, kind: "failing-derivation" });
    }
    // enums without variants: further derive_ex lists and type-level helper attributes are consumed all the same
    for (attr, input, expected) in [
        ("Debug, PartialEq", format!("{foreign} #[derive_ex(Eq)] #[debug(bound())] pub enum X {{}}"), format!("{foreign} pub enum X {{}}")),
        ("Clone", format!("{foreign} #[derive_ex(Hash, Debug)] #[hash(bound())] #[repr(u8)] enum X {{}}"), format!("{foreign} #[repr(u8)] enum X {{}}")),
        ("Ord, PartialOrd, Eq, PartialEq", format!("#[ord(bound())] {foreign} #[derive_ex(Default)] #[default(loop {{}})] enum X {{}}"), format!("{foreign} enum X {{}}")),
    ] {
        v.push(Case { vector: vec![], attr: attr.to_string(), input, expected, kind: "empty-enum" });
    }
    for it in ["fn f<T>(x: T) -> T { x }", "pub trait Tr { fn f(&self); }", "union U { a: u8, b: u16 }", "pub mod m { pub struct Y; }", "const C: u8 = 0;", "type A<T> = Option<T>;", "static S: u8 = 1;", "impl X { fn f(&self) {} }", "impl !Send for X {}"] {
        let it = format!("{foreign} {it}");
        v.push(Case { vector: vec![], attr: "Clone".into(), input: it.clone(), expected: it, kind: "unsupported-item" });
    }
    // impl items: re-emitted as written
    for it in [
        format!("{foreign} impl ::core::ops::Add for X {{ type Output = X; #[inline] fn add(self, rhs: X) -> X {{ #[allow(unused)] let y = rhs; self }} }}"),
        format!("{foreign} impl<T: Clone> ::core::ops::Sub<&Y<T>> for &X<T> where T: Default {{ #[doc = \"o\"] type Output = X<T>; fn sub(self, _rhs: &Y<T>) -> X<T> {{ todo!() }} }}"),
        // anonymous lifetimes in the header stay as written in the re-emitted impl (only the derived impls name them)
        format!("{foreign} impl ::core::ops::Add<u32> for W<'_> {{ type Output = u32; fn add(self, rhs: u32) -> u32 {{ rhs }} }}"),
        format!("{foreign} impl ::core::ops::Add<&W<'_>> for G<&u8> {{ type Output = u32; fn add(self, _rhs: &W<'_>) -> u32 {{ 0 }} }}"),
    ] {
        let a = if it.contains("Add") { "Add, AddAssign" } else { "Sub" };
        v.push(Case { vector: vec![], attr: a.into(), input: it.clone(), expected: it, kind: "impl-item" });
    }
    v
}

/// expected item on an understood list: owned attributes stripped (computed structurally)
pub fn strip_owned_text(input: &str, derived: &[String]) -> Result<String, String> {
    let mut it = syn::parse_str::<syn::Item>(input).map_err(|e| e.to_string())?;
    let strip = |attrs: &mut Vec<syn::Attribute>| attrs.retain(|a| !owned(&format!("#[{}]", a.meta.to_token_stream().to_string().replace(" :: ", "::")), derived));
    match &mut it {
        syn::Item::Struct(s) => {
            strip(&mut s.attrs);
            for f in s.fields.iter_mut() {
                strip(&mut f.attrs);
            }
        }
        syn::Item::Enum(e) => {
            strip(&mut e.attrs);
            for v in e.variants.iter_mut() {
                strip(&mut v.attrs);
                for f in v.fields.iter_mut() {
                    strip(&mut f.attrs);
                }
            }
        }
        _ => {}
    }
    Ok(flat_str(it.to_token_stream()))
}

/// Comparison form for inputs whose derive list cannot be understood: helper attributes that the traits MENTIONED
/// in the list could own are disregarded (dropped on both sides); every other helper-named attribute belongs to
/// a trait that is certainly not being derived and must have been kept.
fn lenient(text_or_item: Result<syn::Item, String>, mentioned: &[String]) -> Result<String, String> {
    let mut it = text_or_item?;
    let strip = |attrs: &mut Vec<syn::Attribute>| attrs.retain(|a| !owned(&format!("#[{}]", a.meta.to_token_stream().to_string().replace(" :: ", "::")), mentioned));
    match &mut it {
        syn::Item::Struct(s) => {
            strip(&mut s.attrs);
            for f in s.fields.iter_mut() {
                strip(&mut f.attrs);
            }
        }
        syn::Item::Enum(e) => {
            strip(&mut e.attrs);
            for v in e.variants.iter_mut() {
                strip(&mut v.attrs);
                for f in v.fields.iter_mut() {
                    strip(&mut f.attrs);
                }
            }
        }
        _ => {}
    }
    Ok(flat_str(it.to_token_stream()))
}

/// every derivable trait whose name occurs as an identifier anywhere in the argument text
fn mentioned_traits(attr: &str) -> Vec<String> {
    let words: Vec<String> = attr.split(|c: char| !(c.is_alphanumeric() || c == '_')).filter(|w| !w.is_empty()).map(|w| w.to_string()).collect();
    ALL_TRAITS.iter().filter(|t| words.iter().any(|w| w == *t)).map(|t| t.to_string()).collect()
}

#[derive(Debug)]
struct Eval {
    symptom: Option<(String, String)>,
    had_error: bool,
}

fn evaluate(c: &Case) -> Eval {
    let e = evaluate_plain(c);
    if e.symptom.is_none() {
        // once more with invisible groups in the item (as `macro_rules!` fragments arrive): the groups are part of
        // the item and have to come back, the comparison ignores them like any other spacing
        expand::set_fragments(true);
        let f = evaluate_plain(c);
        expand::set_fragments(false);
        if let Some((sym, what)) = f.symptom {
            return Eval { symptom: Some((format!("{sym}-with-fragment-groups"), what)), had_error: f.had_error };
        }
    }
    e
}

fn evaluate_plain(c: &Case) -> Eval {
    let ts = match expand::expand_attr(&c.attr, &c.input) {
        Ok(t) => t,
        Err(e) => return Eval { symptom: Some(("expansion-failed".into(), e)), had_error: false },
    };
    let items = match expand::parse_output(ts, true) {
        Ok(i) => i,
        Err(e) => return Eval { symptom: Some(("output-not-well-formed".into(), e)), had_error: false },
    };
    let had_error = items.iter().any(|i| matches!(i, OutItem::Error(_)));
    let first = match items.first() {
        Some(OutItem::Item(i)) => i.clone(),
        _ => return Eval { symptom: Some(("item-missing".into(), "the expansion does not start with the annotated item".into())), had_error },
    };
    let must_fail = matches!(c.kind, "bad-arguments" | "failing-derivation" | "unsupported-item");
    if must_fail && !had_error {
        return Eval { symptom: Some(("failure-not-reported".into(), "no compile_error! next to the item".into())), had_error };
    }
    // When the derive list itself is understood, the helper attributes of the derived traits are
    // stripped even if some derivation then fails (first sentence of the statement); only when the
    // argument list cannot be understood (or the item kind is unsupported) is the comparison
    // restricted to foreign content and structure (I6).
    let list_understood = !matches!(c.kind, "bad-arguments" | "unsupported-item" | "impl-item");
    if (had_error || must_fail) && !list_understood {
        let mentioned = mentioned_traits(&c.attr);
        let got = lenient(Ok(first), &mentioned);
        let want = lenient(syn::parse_str::<syn::Item>(&c.input).map_err(|e| e.to_string()), &mentioned);
        match (got, want) {
            (Ok(g), Ok(w)) => {
                if g != w {
                    return Eval { symptom: Some(("item-altered-on-failure".into(), format!("re-emitted `{g}` for input `{w}` (helper attributes of the traits named in the list disregarded)"))), had_error };
                }
            }
            (_, Err(e)) => return Eval { symptom: Some(("generator-produced-unparsable-input".into(), e)), had_error },
            (Err(e), _) => return Eval { symptom: Some(("item-missing".into(), e)), had_error },
        }
    } else {
        let got = flat_str(first.to_token_stream());
        let want = if c.kind == "failing-derivation" { strip_owned_text(&c.input, &traits_of_attr(&c.attr)).unwrap_or_default() } else { lex(&c.expected).map(flat_str).unwrap_or_default() };
        if got != want {
            return Eval { symptom: Some(("item-not-reemitted-as-written".into(), format!("re-emitted `{got}`, expected `{want}`"))), had_error };
        }
    }
    Eval { symptom: None, had_error }
}

/// What survives of the item is also observed behaviourally through real rustc (channel X):
/// repr through size / alignment / discriminant casts, cfg_attr-gated std derives through
/// `impls!`, visibility from a sibling module, generics defaults, helper-named attributes of
/// traits that are not derived (kept => a user attribute macro of that name still sees them).
fn survivors() -> Vec<crate::xrun::XCase> {
    let progs: [(&str, &str, &str, &str); 12] = [
        ("repr(u8) + discriminants", "pub mod m { use derive_ex::derive_ex; #[derive_ex(Clone, Debug)] #[repr(u8)] pub enum X { A = 3, B = 7, C } }", "format!(\"{};{};{};{}\", m::X::A as u8, m::X::B as u8, m::X::C as u8, ::core::mem::size_of::<m::X>())", "3;7;8;1"),
        ("repr(align) after derive_ex", "pub mod m { use derive_ex::derive_ex; #[derive_ex(Clone, Default)] #[repr(align(16))] pub struct X(pub u8); }", "format!(\"{};{}\", ::core::mem::size_of::<m::X>(), ::core::mem::align_of::<m::X>())", "16;16"),
        ("repr(C) before derive_ex helper attrs", "pub mod m { use derive_ex::derive_ex; #[repr(C)] #[derive_ex(PartialEq, Debug)] pub struct X { #[partial_eq(ignore)] pub a: u8, pub b: u32, pub c: u8 } }", "format!(\"{};{}\", ::core::mem::size_of::<m::X>(), m::X { a: 1, b: 2, c: 3 } == m::X { a: 9, b: 2, c: 3 })", "12;true"),
        ("cfg_attr-gated std derive kept", "pub mod m { use derive_ex::derive_ex; #[derive_ex(Clone)] #[cfg_attr(all(), derive(PartialEq, Debug))] pub struct X(pub u8); }", "format!(\"{};{}\", dxrt::impls!(m::X: ::core::cmp::PartialEq), dxrt::impls!(m::X: ::core::fmt::Debug))", "true;true"),
        ("cfg_attr(any()) keeps nothing", "pub mod m { use derive_ex::derive_ex; #[derive_ex(Clone)] #[cfg_attr(any(), derive(PartialEq))] pub struct X(pub u8); }", "format!(\"{};{}\", dxrt::impls!(m::X: ::core::cmp::PartialEq), dxrt::impls!(m::X: ::core::clone::Clone))", "false;true"),
        ("std derive above and below", "pub mod m { use derive_ex::derive_ex; #[derive(Debug)] #[derive_ex(Clone)] #[derive(PartialEq)] pub enum X { A(u8), B } }", "format!(\"{};{};{}\", dxrt::impls!(m::X: ::core::fmt::Debug), dxrt::impls!(m::X: ::core::cmp::PartialEq), dxrt::impls!(m::X: ::core::clone::Clone))", "true;true;true"),
        ("field visibility kept", "pub mod m { use derive_ex::derive_ex; #[derive_ex(Default, Debug)] pub struct X { pub a: u8, pub(crate) b: u16, #[debug(ignore)] pub(super) c: u32 } }", "{ let x = <m::X as ::core::default::Default>::default(); format!(\"{};{};{}\", x.a, x.b, x.c) }", "0;0;0"),
        ("generic defaults kept", "pub mod m { use derive_ex::derive_ex; #[derive_ex(Clone, Default)] pub struct X<T = u8, const N: usize = 3>(pub [T; N]); }", "{ let x: m::X = ::core::default::Default::default(); format!(\"{}\", x.0.len()) }", "3"),
        ("where-clause kept", "pub mod m { use derive_ex::derive_ex; pub trait Tr {} impl Tr for u8 {} #[derive_ex(Clone)] pub struct X<T>(pub T) where T: Tr; }", "format!(\"{}\", dxrt::impls!(m::X<u8>: ::core::clone::Clone))", "true"),
        ("variant attributes of a foreign derive kept", "pub mod m { use derive_ex::derive_ex; #[derive_ex(Clone, Debug)] #[derive(Default)] pub enum X { A(u8), #[default] B } }", "format!(\"{:?}\", <m::X as ::core::default::Default>::default())", "B"),
        ("non_exhaustive kept", "pub mod m { use derive_ex::derive_ex; #[derive_ex(Clone, PartialEq)] #[non_exhaustive] pub enum X { A, B } }", "format!(\"{}\", match m::X::A { m::X::A => 1, m::X::B => 2 })", "1"),
        ("allow kept (no warning turns into error)", "pub mod m { #![deny(non_camel_case_types)] use derive_ex::derive_ex; #[derive_ex(Clone, Debug)] #[allow(non_camel_case_types)] pub struct lower_case(pub u8); }", "format!(\"{:?}\", m::lower_case(1))", "lower_case(1)"),
    ];
    progs.iter().map(|(what, defs, expr, expected)| crate::xrun::XCase {
        text: defs.to_string(),
        code: format!("{defs}\npub fn run() -> String {{ {expr} }}\n"),
        expected: expected.to_string(),
        atoms: [format!("survivor={what}")].into_iter().collect(),
        nontrivial: true,
        detail: json!({"kind": "survivor", "what": what, "program": defs}),
        what: format!("behavioural survivor `{what}`"),
        inner: 1,
        symptom: "foreign-content-lost-or-altered".into(),
        must_compile: true,
    }).collect()
}

/// `macro_rules!` fragments inside the item: an `expr` fragment in an array length, a discriminant, a const-generic
/// argument or a method body of an impl item, and a `ty` fragment behind a reference, must MEAN the same after
/// `derive_ex` re-emitted the item (attribute entry) or repeated a field type in generated code (both entries) as
/// they do without `derive_ex`: rustc honours the invisible group of a fragment only as long as it is the original
/// one. Terminal state = (item kind, expression context around the fragment, entry point); oracle = the value the
/// same macro-generated definition has without derive_ex (worked out by hand, `$e = 1 + 2`).
fn fragment_survivors() -> Vec<crate::xrun::XCase> {
    // (context with the fragment `$e = 1 + 2`, its value)
    let ctxs: [(&str, i64); 12] = [("$c as TY", 3), ("$g.pow(2)", 9), ("$e * 2", 6), ("2 * $e", 6), ("$e - $e", 0), ("($e) * 2", 6), ("$e as TY * 2", 6), ("[$e * 2, 1][0]", 6), ("$f.pow(2)", 9), ("<TY>::pow($e, 2)", 9), ("4 - $e", 1), ("8 / $e", 2)];
    let mut out = Vec::new();
    let mut push = |what: String, defs: String, expr: String, expected: String| {
        out.push(crate::xrun::XCase {
            text: defs.clone(),
            code: format!("{defs}\npub fn run() -> String {{ {expr} }}\n"),
            expected,
            atoms: [format!("fragment-survivor={what}")].into_iter().collect(),
            nontrivial: true,
            detail: json!({"kind": "fragment-survivor", "what": what, "program": defs}),
            what: format!("macro_rules! fragment inside the item: {what}"),
            inner: 1,
            symptom: "fragment-in-the-item-changes-meaning".into(),
            must_compile: true,
        });
    };
    for (entry, head) in [("attr", "#[derive_ex(Clone)]"), ("derive", "#[derive(Ex)] #[derive_ex(Clone)]")] {
        for (ctx, val) in ctxs.iter() {
            let u = ctx.replace("TY", "usize");
            let i = ctx.replace("TY", "isize");
            if ctx.contains("$g") {
                // a negative operand: discriminants only
                push(format!("{entry}: discriminant `{i}`"), format!("pub mod m {{ use derive_ex::{{derive_ex, Ex}}; macro_rules! mk {{ ($n:ident, $e:expr, $f:expr, $c:expr, $g:expr) => {{ {head} pub enum $n {{ P = {i}, Q }} }} }} mk!(X, 1 + 2, 1 as isize + 2, 1u8 + 2u8, -3isize); }}"), "format!(\"{};{}\", m::X::P as isize, m::X::Q as isize)".into(), format!("{};{}", val, val + 1));
                continue;
            }
            push(format!("{entry}: array length `{u}`"), format!("pub mod m {{ use derive_ex::{{derive_ex, Ex}}; macro_rules! mk {{ ($n:ident, $e:expr, $f:expr, $c:expr, $g:expr) => {{ {head} pub struct $n(pub [u8; {u}]); }} }} mk!(X, 1 + 2, 1 as usize + 2, 1u8 + 2u8, -3isize); }}"), "format!(\"{}\", ::core::mem::size_of::<m::X>())".into(), format!("{val}"));
            push(format!("{entry}: array length `{u}` of a parameter type"), format!("pub mod m {{ use derive_ex::{{derive_ex, Ex}}; macro_rules! mk {{ ($n:ident, $e:expr, $f:expr, $c:expr, $g:expr) => {{ {head} pub struct $n<T>(pub [T; {u}]); }} }} mk!(X, 1 + 2, 1 as usize + 2, 1u8 + 2u8, -3isize); }}"), format!("{{ let x = m::X([7u8; {val}]); let y = ::core::clone::Clone::clone(&x); format!(\"{{}}\", y.0.len()) }}"), format!("{val}"));
            push(format!("{entry}: discriminant `{i}`"), format!("pub mod m {{ use derive_ex::{{derive_ex, Ex}}; macro_rules! mk {{ ($n:ident, $e:expr, $f:expr, $c:expr, $g:expr) => {{ {head} pub enum $n {{ P = {i}, Q }} }} }} mk!(X, 1 + 2, 1 as isize + 2, 1u8 + 2u8, -3isize); }}"), "format!(\"{};{}\", m::X::P as isize, m::X::Q as isize)".into(), format!("{};{}", val, val + 1));
            push(format!("{entry}: const argument `{{ {u} }}`"), format!("pub mod m {{ use derive_ex::{{derive_ex, Ex}}; #[derive(Clone)] pub struct Arr<const N: usize>(pub [u8; N]); macro_rules! mk {{ ($n:ident, $e:expr, $f:expr, $c:expr, $g:expr) => {{ {head} pub struct $n(pub Arr<{{ {u} }}>); }} }} mk!(X, 1 + 2, 1 as usize + 2, 1u8 + 2u8, -3isize); }}"), "format!(\"{}\", ::core::mem::size_of::<m::X>())".into(), format!("{val}"));
        }
        for (ty, what) in [("&'a $t", "reference (one trait and a lifetime bound)"), ("*const $t", "raw pointer (one trait and a lifetime bound)")] {
            push(format!("{entry}: `ty` fragment `dyn Tr + 'static` behind a {what}"), format!("pub mod m {{ use derive_ex::{{derive_ex, Ex}}; pub trait Tr {{}} macro_rules! mk {{ ($n:ident, $t:ty) => {{ {head} pub struct $n<'a>(pub {ty}, pub ::core::marker::PhantomData<&'a u8>); }} }} mk!(X, dyn Tr + 'static); }}"), "format!(\"{}\", dxrt::impls!(m::X<'static>: ::core::clone::Clone))".into(), "true".into());
        }
        for (ty, what) in [("&'a $t", "reference"), ("*const $t", "raw pointer"), ("::core::option::Option<&'a $t>", "nested reference")] {
            push(format!("{entry}: `ty` fragment `dyn Tr + Send` behind a {what}"), format!("pub mod m {{ use derive_ex::{{derive_ex, Ex}}; pub trait Tr {{}} macro_rules! mk {{ ($n:ident, $t:ty) => {{ {head} pub struct $n<'a>(pub {ty}, pub ::core::marker::PhantomData<&'a u8>); }} }} mk!(X, dyn Tr + Send); }}"), "format!(\"{}\", dxrt::impls!(m::X<'static>: ::core::clone::Clone))".into(), "true".into());
        }
    }
    // the body of a user impl is part of the re-emitted item
    for (ctx, val) in ctxs.iter() {
        let u = if ctx.contains("$g") { format!("({}) as usize", ctx.replace("TY", "isize")) } else { ctx.replace("TY", "usize") };
        push(format!("impl item: method body `{u}`"), format!("pub mod m {{ use derive_ex::derive_ex; #[derive(Clone)] pub struct X(pub usize); macro_rules! mk {{ ($e:expr, $f:expr, $c:expr, $g:expr) => {{ #[derive_ex(AddAssign)] impl ::core::ops::Add<usize> for X {{ type Output = X; fn add(self, r: usize) -> X {{ let k: usize = {u}; X(self.0 + r + k) }} }} }} }} mk!(1 + 2, 1 as usize + 2, 1u8 + 2u8, -3isize); }}"), "{ let mut x = m::X(10); x += 100; format!(\"{};{}\", (m::X(10) + 100).0, x.0) }".into(), format!("{};{}", 110 + val, 110 + val));
    }
    // fragments of the remaining kinds (vis incl. the empty one, lifetime, path, literal, block; pat / stmt / block / ty in
    // the method body of an impl item): flattening them is harmless, they must simply survive
    for (entry, head) in [("attr", "#[derive_ex(Clone, Debug, Default)]"), ("derive", "#[derive(Ex)] #[derive_ex(Clone, Debug, Default)]")] {
        let defs = format!("pub mod m {{ use derive_ex::{{derive_ex, Ex}};\nmacro_rules! v {{ ($v:vis struct $n:ident, $w:vis fld) => {{ {head} $v struct $n {{ $w a: u8, $v b: u8 }} }} }}\nv!(pub struct A, fld);\nv!(pub(crate) struct B, pub(super) fld);\nmacro_rules! p {{ ($n:ident, $p:path, $q:path, $l:lifetime) => {{ {head} pub struct $n<$l, T: $q>(pub $p, pub ::core::option::Option<&$l T>) where T: $q; }} }}\np!(D, ::std::vec::Vec<T>, ::core::clone::Clone, 'a);\nmacro_rules! li {{ ($n:ident, $l:literal, $b:block) => {{ {head} pub struct $n(pub [u8; $l], #[default($l)] pub u8, pub Arr<$b>); }} }}\n#[derive(Clone, Debug)] pub struct Arr<const N: usize>(pub [u8; N]);\nimpl<const N: usize> Default for Arr<N> {{ fn default() -> Self {{ Arr([7; N]) }} }}\nli!(F, 3, {{ 1 + 1 }}); }}");
        push(format!("{entry}: vis / path / lifetime / literal / block fragments"), defs, "{ let a = <m::A as ::core::default::Default>::default(); let b = <m::B as ::core::default::Default>::default(); format!(\"{};{};{:?};{:?}\", a.b, b.a + b.b, <m::D<'static, u8> as ::core::default::Default>::default(), <m::F as ::core::default::Default>::default()) }".into(), "0;0;D([], None);F([0, 0, 0], 3, Arr([7, 7]))".into());
    }
    push("impl item: struct-literal expr fragment in the head of a for loop / if let / match".into(), "pub mod m { use derive_ex::derive_ex; #[derive(Clone)] pub struct Z(pub usize); macro_rules! h { ($e:expr) => { #[derive_ex(AddAssign)] impl ::core::ops::Add<usize> for Z { type Output = Z; fn add(self, r: usize) -> Z { let mut s = self.0 + r; for i in $e { s += i; } if let ::core::ops::Range { start: 0, end } = $e { s += end; } match $e { ::core::ops::Range { start, .. } => s += start } Z(s) } } } } h!(::core::ops::Range { start: 0usize, end: 3usize }); }".into(), "{ let mut z = m::Z(1); z += 1; format!(\"{};{}\", (m::Z(1) + 1).0, z.0) }".into(), "8;8".into());
    push("impl item: pat / stmt / block / ty fragments in a method".into(), "pub mod m { use derive_ex::derive_ex; #[derive(Clone, Debug)] pub struct X(pub u8);\nmacro_rules! im { ($p:pat, $s:stmt, $b:block, $t:ty) => { #[derive_ex(AddAssign)] impl ::core::ops::Add<u8> for X { type Output = $t; fn add(self, r: u8) -> $t { $s; match r { $p => X(self.0 + 10), _ => $b } } } } }\nim!(1 | 2, let _k = 10, { X(0) }, X); }".into(), "{ let mut x = m::X(1); x += 2; format!(\"{:?};{:?}\", x, m::X(1) + 7) }".into(), "X(11);X(0)".into());
    out
}

pub fn run(ctx: &Ctx, rep: &mut Report) {
    let thorough = ctx.tier.is_thorough();
    rep.rule = "terminal state = (item kind, derived list, visibility, generics/where-clause, discriminant, and a sequence of up to 3 attributes from a pool of 9 foreign + 10 helper-named + derive_ex attributes at each of the type / variant / field placements, bounded by the total number of deviations) plus a fixed family of failing inputs (bad arguments, malformed helper attributes, unsupported item kinds, impl items); distinct by input text; non-trivial = at least one attribute placed".into();
    rep.assumptions = vec!["expected item = input minus derive_ex attributes and the helper attributes the documentation assigns to the derived traits (I1: partial_eq only with PartialEq); on failure paths only foreign content and structure are compared (I6)".into()];
    let mut cases: Vec<Case> = Vec::new();
    if let Some(p) = &ctx.replay {
        let v: serde_json::Value = serde_json::from_str(&std::fs::read_to_string(p).expect("replay file")).expect("replay json");
        let vec: Vec<usize> = v["case"]["vector"].as_array().map(|a| a.iter().map(|x| x.as_u64().unwrap() as usize).collect()).unwrap_or_default();
        if vec.is_empty() {
            cases = failing_cases().into_iter().filter(|c| c.input == v["case"]["input"].as_str().unwrap_or("") && c.attr == v["case"]["attr"].as_str().unwrap_or("")).collect();
        } else {
            let th = v["case"]["tier"] == "thorough";
            let c = if v["case"]["kind"] == "interleave" { replay(|ch| gen_interleave(ch, th), &vec) } else { replay(|ch| gen(ch, th), &vec) };
            cases.push(c.unwrap_or_else(|| crate::report::machinery("replayed vector is pruned")));
        }
    } else {
        let st = explore(|ch| gen(ch, thorough), |_, c| cases.push(c));
        rep.stats.add(&st);
        let st = explore(|ch| gen_interleave(ch, thorough), |_, c| cases.push(c));
        rep.stats.add(&st);
        let f = failing_cases();
        rep.stats.states += f.len() as u64;
        rep.stats.transitions += f.len() as u64;
        rep.stats.terminals += f.len() as u64;
        cases.extend(f);
    }
    let evals = par_map(&cases, threads(), |_, c| evaluate(c));
    for (c, e) in cases.iter().zip(evals.iter()) {
        rep.case(&format!("{} {}", c.attr, c.input), c.input != c.expected || c.input.contains("#["));
        rep.outcome(&format!("{}:{}", c.kind, if e.had_error { "with-error" } else { "derived" }));
        if let Some((sym, what)) = &e.symptom {
            let mut atoms = BTreeSet::new();
            atoms.insert(format!("kind={}", c.kind));
            atoms.insert(format!("group={}", c.kind));
            atoms.insert(format!("derived={}", c.attr));
            rep.violation(Violation { symptom: sym.clone(), atoms, what: format!("#[derive_ex({})] {}: {}", c.attr, c.input.chars().take(200).collect::<String>(), what.chars().take(500).collect::<String>()), detail: json!({"vector": c.vector, "kind": c.kind, "tier": ctx.tier.name(), "attr": c.attr, "input": c.input, "expected_item": c.expected, "observed": what}), standalone: None });
        } else if rep.samples.len() < 5 && c.input != c.expected && c.input.matches("#[").count() >= 3 {
            rep.sample(json!({"attr": c.attr, "input": c.input, "expected_item": c.expected}));
        }
    }
    if ctx.replay.is_none() {
        let mut sv = survivors();
        sv.extend(fragment_survivors());
        rep.stats.states += sv.len() as u64;
        rep.stats.transitions += sv.len() as u64;
        rep.stats.terminals += sv.len() as u64;
        crate::xrun::run_and_compare(rep, "c14s", &sv);
    }
    if ctx.replay.is_none() {
        // the <= 1-attribute slice through the real pipeline
        let inputs: Vec<crate::conform::Input> = cases.iter().filter(|c| c.kind != "interleave" && !c.vector.is_empty() && c.input.matches("#[").count() <= 1 && !c.input.contains(") = 5") && !c.input.trim_start().starts_with("#[derive_ex") && !c.input.trim_start().starts_with("#[::derive_ex") && !c.input.contains("cfg_attr(all(), allow")).map(|c| crate::conform::Input { entry: crate::expand::Entry::Attr, attr: c.attr.clone(), item: c.input.clone() }).collect();
        crate::conform::validate_or_die(rep, "c14p", &inputs);
    }
}
