//! C11 — default() returns the documented value (channel X; channel E for rejections).

use crate::expand::{self, Aligned, Entry};
use crate::explore::{explore, replay, Ch};
use crate::gen::*;
use crate::report::{Report, Violation};
use crate::xrun::{run_and_compare, XCase};
use crate::Ctx;
use serde_json::json;
use std::collections::BTreeSet;

/// (field type, `#[default(..)]` argument or "" for no attribute, reference value expression, kind)
const EXPRS: [(&str, &str, &str, &str); 26] = [
    ("u8", "", "0u8", "none"),
    ("u8", "5", "5u8", "int-literal"),
    ("String", "\"abc\"", "String::from(\"abc\")", "string-literal"),
    ("u32", "C8", "9u32", "const-path"),
    ("u64", "K::N", "11u64", "assoc-const-path"),
    ("i32", "-3", "-3i32", "negative-literal"),
    ("u8", "Default::default()", "0u8", "call-needing-inference"),
    ("u16", "_", "0u16", "underscore"),
    ("bool", "true", "true", "bool-literal"),
    ("char", "'x'", "'x'", "char-literal"),
    ("Option<u8>", "None", "None::<u8>", "variant-path"),
    ("E", "E::B", "E::B", "enum-variant-path"),
    ("Vec<u8>", "vec![1, 2]", "vec![1u8, 2]", "macro-call"),
    ("u8", "{ 1 + 2 }", "3u8", "block"),
    ("String", "S9", "String::from(\"s9\")", "const-str-path"),
    ("u8", "mk(4)", "4u8", "call"),
    ("u32", "p::C8", "9u32", "module-const-path"),
    // conversions that exist ONLY as a hand-written `impl Into<Target> for Source` (no From)
    ("Tgt", "SRC", "Tgt(3)", "into-only-const-path"),
    ("Tgt", "\"three\"", "Tgt(5)", "into-only-string-literal"),
    // a parenthesised path is NOT "a path": no Into, so the ordinary unsize coercion &[u8; 3] -> &[u8] applies
    ("&'static [u8]", "(BYTES)", "&[1u8, 2, 3][..]", "parenthesised-path-needing-coercion"),
    // further literal kinds: only STRING literals (plain and raw) are converted with Into
    ("&'static [u8]", "b\"abc\"", "&[97u8, 98, 99][..]", "byte-string-literal-needing-coercion"),
    ("String", "r\"a\\b\"", "String::from(\"a\\\\b\")", "raw-string-literal"),
    ("f64", "-1.5", "-1.5f64", "negative-float-literal"),
    ("u8", "b'a'", "97u8", "byte-literal"),
    ("u16", "7u16", "7u16", "suffixed-literal"),
    // no attribute on a field whose type has an INHERENT fn default() that disagrees with its Default impl
    ("Lvl", "", "Lvl(1)", "inherent-default-fn"),
];

const PRELUDE: &str = "pub const BYTES: &[u8; 3] = &[1, 2, 3];\n#[derive(Debug)] pub struct Lvl(pub u8);\nimpl Lvl { pub fn default() -> Lvl { Lvl(99) } }\nimpl ::core::default::Default for Lvl { fn default() -> Self { Lvl(1) } }\npub mod p { pub const C8: u8 = 9; }\npub const C8: u8 = 9;\npub const S9: &str = \"s9\";\npub struct K;\nimpl K { pub const N: u32 = 11; }\n#[derive(Debug, PartialEq, Clone)] pub enum E { A, B }\npub fn mk(x: u8) -> u8 { x }\npub struct Src;\npub const SRC: Src = Src;\n#[derive(Debug, PartialEq)] pub struct Tgt(pub u8);\nimpl ::core::convert::Into<Tgt> for Src { fn into(self) -> Tgt { Tgt(3) } }\nimpl<'a> ::core::convert::Into<Tgt> for &'a str { fn into(self) -> Tgt { Tgt(self.len() as u8) } }\n";

#[derive(Clone, Debug)]
struct Case {
    gen: &'static str,
    vector: Vec<usize>,
    shape: Shape,
    /// per variant per field: index into EXPRS
    exprs: Vec<Vec<usize>>,
    /// indices of variants carrying `#[default]`
    marked: Vec<usize>,
    /// a value on the (first) marked variant's attribute: `#[default(1)]`
    value_on_variant: bool,
    /// 0 none, 1 call/ctor expression, 2 path (`Self::V` / const of the type), 3 string literal through From<&str>
    type_level: usize,
    /// attributes additionally carry bound(..) arguments; the type is generic
    with_bounds: bool,
    /// the bound arguments stop resolution (`bound(T)` instead of `bound(T: Copy, ..)`)
    bounds_stop: bool,
    /// the definition comes out of a macro_rules! macro and every `#[default(expr)]` value arrives as an `expr` fragment
    via_macro: bool,
    entry: Entry,
}

fn vshape(kind: SKind, n: usize) -> VShape {
    VShape { kind, n }
}

/// G1: per-field expressions on small structs / the default variant of an enum.
fn gen_fields(ch: &mut Ch, thorough: bool) -> Option<Case> {
    let bodies = [vshape(SKind::Tuple, 1), vshape(SKind::Named, 2), vshape(SKind::Tuple, 3), vshape(SKind::Named, 0), vshape(SKind::Tuple, 0)];
    let body = ch.of(&bodies).clone();
    let as_enum = ch.flag();
    let bmode = ch.pick(3);
    let with_bounds = bmode != 0;
    let bounds_stop = bmode == 2;
    let entry = *ch.of(&Entry::BOTH);
    let mut e = Vec::new();
    let mut dev = 0;
    for _ in 0..body.n {
        let k = ch.pick(EXPRS.len());
        if k != 0 {
            dev += 1;
            if dev > if thorough { 2 } else { 1 } {
                return None;
            }
        }
        e.push(k);
    }
    if !thorough && body.n == 3 && (as_enum || with_bounds || entry == Entry::Derive) {
        return None;
    }
    let via_macro = ch.flag();
    if via_macro && (dev == 0 || entry == Entry::Derive && !thorough) {
        return None;
    }
    let (shape, exprs, marked) = if as_enum {
        (Shape { is_enum: true, variants: vec![vshape(SKind::Unit, 0), body] }, vec![vec![], e], vec![1])
    } else {
        (Shape { is_enum: false, variants: vec![body] }, vec![e], vec![])
    };
    Some(Case { gen: "", vector: ch.vector(), shape, exprs, marked, value_on_variant: false, type_level: 0, with_bounds, bounds_stop, via_macro, entry })
}

/// G2: which variant is selected (none / one / several / single-variant rule / value on the attribute).
fn gen_variants(ch: &mut Ch, thorough: bool) -> Option<Case> {
    let menu = [vshape(SKind::Unit, 0), vshape(SKind::Tuple, 1), vshape(SKind::Named, 1), vshape(SKind::Tuple, 0), vshape(SKind::Named, 0), vshape(SKind::Named, 2)];
    let nv = ch.pick(if thorough { 4 } else { 3 });
    let mut variants = Vec::new();
    for _ in 0..nv {
        variants.push(ch.of(&menu[..if thorough { 6 } else { 5 }]).clone());
    }
    // distinct expression per variant so that the constructed variant is identifiable
    let exprs: Vec<Vec<usize>> = variants.iter().enumerate().map(|(vi, v)| (0..v.n).map(|fi| 1 + (vi * 2 + fi) % 5).collect()).collect();
    let shape = Shape { is_enum: true, variants };
    let mut marked = Vec::new();
    let opts = 1 + nv + if nv >= 2 { 1 } else { 0 };
    let k = ch.pick(opts);
    if k >= 1 && k <= nv {
        marked.push(k - 1);
    } else if k > nv {
        marked = vec![0, nv - 1];
    }
    let value_on_variant = if marked.is_empty() { false } else { ch.flag() };
    let bmode = ch.pick(3);
    let with_bounds = bmode != 0;
    let bounds_stop = bmode == 2;
    let entry = *ch.of(&Entry::BOTH);
    if with_bounds && nv == 0 {
        return None;
    }
    if !thorough && entry == Entry::Derive && with_bounds {
        return None;
    }
    Some(Case { gen: "", vector: ch.vector(), shape, exprs, marked, value_on_variant, type_level: 0, with_bounds, bounds_stop, via_macro: false, entry })
}

/// G3: type-level values.
fn gen_type_level(ch: &mut Ch, thorough: bool) -> Option<Case> {
    let shapes = [
        Shape { is_enum: false, variants: vec![vshape(SKind::Tuple, 1)] },
        Shape { is_enum: false, variants: vec![vshape(SKind::Named, 2)] },
        Shape { is_enum: false, variants: vec![vshape(SKind::Unit, 0)] },
        Shape { is_enum: true, variants: vec![vshape(SKind::Tuple, 1), vshape(SKind::Unit, 0)] },
        Shape { is_enum: true, variants: vec![vshape(SKind::Unit, 0), vshape(SKind::Named, 1), vshape(SKind::Tuple, 2)] },
        Shape { is_enum: true, variants: vec![vshape(SKind::Named, 1)] },
    ];
    let shape = ch.of(&shapes).clone();
    let type_level = 1 + ch.pick(3);
    let exprs: Vec<Vec<usize>> = shape.variants.iter().enumerate().map(|(vi, v)| (0..v.n).map(|fi| if thorough { 1 + (vi + fi) % 2 } else { 1 }).collect()).collect();
    let mut marked = Vec::new();
    if shape.is_enum {
        let nv = shape.variants.len();
        let k = ch.pick(nv + 2);
        if k >= 1 && k <= nv {
            marked.push(k - 1);
        } else if k > nv && nv >= 2 {
            marked = vec![0, 1];
        } else if k > nv {
            return None;
        }
    }
    let bmode = ch.pick(3);
    let with_bounds = bmode != 0;
    let bounds_stop = bmode == 2;
    let entry = *ch.of(&Entry::BOTH);
    if type_level == 2 && shape.is_enum && !shape.variants.iter().any(|v| v.kind == SKind::Unit) {
        return None;
    }
    Some(Case { gen: "", vector: ch.vector(), shape, exprs, marked, value_on_variant: false, type_level, with_bounds, bounds_stop, via_macro: false, entry })
}

struct Built {
    item: String,
    reference: Option<String>,
    reject: bool,
    impls: String,
}

fn build_item(c: &Case) -> Built {
    let sh = &c.shape;
    let b = |arg: &str| -> String {
        if c.with_bounds {
            if arg.is_empty() {
                if c.bounds_stop { "#[default(_, bound(T))]".to_string() } else { "#[default(_, bound(..))]".to_string() }
            } else if c.bounds_stop {
                format!("#[default({arg}, bound(T))]")
            } else {
                format!("#[default({arg}, bound(T: ::core::marker::Copy, ..))]")
            }
        } else if arg.is_empty() {
            String::new()
        } else {
            format!("#[default({arg})]")
        }
    };
    let ty = |vi: usize, fi: usize| EXPRS[c.exprs[vi][fi]].0.to_string();
    let attrs = |vi: usize, fi: usize| {
        let a = b(EXPRS[c.exprs[vi][fi]].1);
        if a.is_empty() {
            vec![]
        } else {
            vec![a]
        }
    };
    let mut item = sh.item(if c.with_bounds { "<T>" } else { "" }, &ty, &attrs);
    // a generic parameter must be used: add a PhantomData field to the first non-unit body, or make one
    if c.with_bounds {
        let ph = FieldDef::tuple("::core::marker::PhantomData<T>");
        match &mut item.body {
            Body::Struct(f) => match f {
                FieldsDef::Unit => *f = FieldsDef::Tuple(vec![ph]),
                FieldsDef::Tuple(v) => v.push(ph),
                FieldsDef::Named(v) => {
                    let mut p = ph;
                    p.name = Some("ph".into());
                    v.push(p)
                }
            },
            Body::Enum(vs) => {
                vs.push(VariantDef::new("Ph", FieldsDef::Tuple(vec![ph])));
            }
        }
    }
    // variant markers
    if let Body::Enum(vs) = &mut item.body {
        for (k, &m) in c.marked.iter().enumerate() {
            let a = if k == 0 && c.value_on_variant { "#[default(1)]".to_string() } else if c.with_bounds { if c.bounds_stop { "#[default(_, bound(T))]".to_string() } else { "#[default(_, bound(..))]".to_string() } } else { "#[default]".to_string() };
            vs[m].attrs.push(a);
        }
    }
    // which variant is constructed
    let nv_real = if let Body::Enum(vs) = &item.body { vs.len() } else { 1 };
    let target: Option<usize> = if !sh.is_enum {
        Some(0)
    } else if c.marked.len() == 1 {
        Some(c.marked[0])
    } else if c.marked.is_empty() && nv_real == 1 {
        Some(0)
    } else {
        None
    };
    let ph_arg = "::core::marker::PhantomData".to_string();
    let ctor_of = |vi: usize| -> String {
        if c.with_bounds && sh.is_enum && vi == sh.variants.len() {
            return format!("X::Ph({ph_arg})");
        }
        let mut args: Vec<String> = (0..sh.variants[vi].n).map(|fi| EXPRS[c.exprs[vi][fi]].2.to_string()).collect();
        if c.with_bounds && !sh.is_enum {
            // struct got an extra PhantomData field
            return match sh.variants[0].kind {
                SKind::Unit => format!("X({ph_arg})"),
                SKind::Tuple => {
                    args.push(ph_arg.clone());
                    format!("X({})", args.join(", "))
                }
                SKind::Named => {
                    let mut parts: Vec<String> = (0..sh.variants[0].n).map(|fi| format!("{}: {}", fname(fi), args[fi])).collect();
                    parts.push(format!("ph: {ph_arg}"));
                    format!("X {{ {} }}", parts.join(", "))
                }
            };
        }
        sh.ctor(vi, &args)
    };
    // type-level value
    let mut impls = String::new();
    let g = if c.with_bounds { "<T>" } else { "" };
    let mut reject = false;
    let mut reference: Option<String> = None;
    // a simple value of the type to name at type level: the first variant / the struct built from reference values
    let first_ctor = if sh.is_enum && sh.variants.is_empty() { None } else { Some(ctor_of(0)) };
    match c.type_level {
        0 => {
            match target {
                Some(t) => {
                    if c.value_on_variant && !c.marked.is_empty() {
                        reject = true;
                    } else {
                        reference = Some(ctor_of(t));
                    }
                }
                None => reject = true,
            }
        }
        1 => match &first_ctor {
            Some(ct) => {
                // a constructor expression naming the type: uses the reference values of variant 0
                item.attrs.push(b(ct));
                reference = Some(ct.clone());
            }
            None => reject = true,
        },
        2 => {
            // a path: `Self::V` of a unit variant, or an associated const for structs
            if sh.is_enum {
                let vi = sh.variants.iter().position(|v| v.kind == SKind::Unit).unwrap();
                item.attrs.push(b(&format!("Self::{}", sh.vname(vi))));
                reference = Some(format!("X::{}", sh.vname(vi)));
            } else {
                let ct = first_ctor.clone().unwrap();
                impls.push_str(&format!("impl{g} X{g} {{ pub const MK: Self = {}; }}\n", ct.replace("String::from(\"abc\")", "String::new()").replace("String::from(\"s9\")", "String::new()").replace("vec![1u8, 2]", "Vec::new()")));
                item.attrs.push(b("Self::MK"));
                reference = Some("X::MK".to_string());
            }
        }
        _ => match &first_ctor {
            Some(ct) => {
                // a string literal: converted with Into through a user From<&str>
                impls.push_str(&format!("impl{g} ::core::convert::From<&str> for X{g} {{ fn from(_: &str) -> Self {{ {ct} }} }}\n"));
                item.attrs.push(b("\"lit\""));
                reference = Some(ct.clone());
            }
            None => reject = true,
        },
    }
    Built { item: item.print(), reference, reject, impls }
}

fn build(c: &Case, tier: &str, bi: &Built) -> XCase {
    let head = match c.entry {
        Entry::Attr => "#[derive_ex(Default)]".to_string(),
        Entry::Derive => "#[derive(Ex)]\n#[derive_ex(Default)]".to_string(),
    };
    let selfty = if c.with_bounds { "X<u8>" } else { "X" };
    let mut s = String::new();
    s.push_str("use derive_ex::{derive_ex, Ex};\n");
    s.push_str(PRELUDE);
    let definition = match (c.via_macro, macroize_default_exprs(&format!("#[derive(Debug)]\n{head}"), &bi.item)) {
        (true, Some(m)) => m,
        _ => format!("#[derive(Debug)]\n{head}\n{}\n", bi.item),
    };
    s.push_str(&format!("{definition}{}", bi.impls));
    let r = bi.reference.clone().unwrap();
    s.push_str(&format!("pub fn run() -> String {{\n    let a: {selfty} = <{selfty} as ::core::default::Default>::default();\n    let b: {selfty} = {r};\n    let (a, b) = (format!(\"{{:?}}\", a), format!(\"{{:?}}\", b));\n    if a == b {{ \"t;\".to_string() }} else {{ format!(\"f[{{}}|{{}}];\", a, b) }}\n}}\n"));
    let mut atoms = BTreeSet::new();
    atoms.insert(format!("entry={}", c.entry.name()));
    atoms.insert(format!("kind={}", if c.shape.is_enum { "enum" } else { "struct" }));
    atoms.insert(format!("type_level={}", c.type_level));
    atoms.insert(format!("with_bounds={}", c.with_bounds));
    atoms.insert(format!("bounds_stop={}", c.bounds_stop));
    atoms.insert(format!("via_macro={}", c.via_macro));
    for e in c.exprs.iter().flatten() {
        if *e != 0 {
            atoms.insert(format!("expr={}", EXPRS[*e].3));
        }
    }
    XCase {
        text: format!("{} {}{}{}", c.entry.name(), bi.item, bi.impls, if c.via_macro { " [generated by macro_rules!, default values as expr fragments]" } else { "" }),
        code: s,
        expected: "t;".into(),
        atoms,
        nontrivial: c.exprs.iter().flatten().any(|e| *e != 0) || c.type_level != 0,
        detail: json!({"gen": c.gen, "vector": c.vector, "tier": tier, "entry": c.entry.name(), "item": bi.item, "reference_value": r}),
        what: format!("derive_ex(Default) via {} on `{}`", c.entry.name(), bi.item),
        inner: 1,
        symptom: "default-value-differs".into(),
        must_compile: true,
    }
}

pub fn run(ctx: &Ctx, rep: &mut Report) {
    let thorough = ctx.tier.is_thorough();
    rep.rule = "terminal state = (struct/enum shape, choice of #[default] variant(s) incl. none / several / a value on the variant attribute, per-field #[default(expr)] from 19 expression kinds with a bounded number of attributed fields, type-level value in {none, constructor call, path, string literal}, with or without bound(..) arguments sharing the attributes on a generic type, entry point); distinct by program text; non-trivial = at least one explicit value".into();
    rep.assumptions = vec!["reference constructor: type-level value wins; else struct / #[default] variant / only variant with each field = its expression (through Into exactly for string literals and paths: field types are chosen so that a missing or superfluous Into does not compile) or Default::default(); compared by Debug text; rejected shapes (no / several default variants, value on a variant attribute) must expand to compile_error!".into()];
    let mut cases = Vec::new();
    let gens: [(&str, fn(&mut Ch, bool) -> Option<Case>); 3] = [("fields", gen_fields), ("variants", gen_variants), ("type-level", gen_type_level)];
    if let Some(p) = &ctx.replay {
        let v: serde_json::Value = serde_json::from_str(&std::fs::read_to_string(p).expect("replay file")).expect("replay json");
        if v["case"]["gen"] == "fragment-precedence" {
            let x: Vec<XCase> = fragment_precedence_cases(ctx.tier.name()).into_iter().filter(|x| x.detail["entry"] == v["case"]["entry"]).collect();
            run_and_compare(rep, "c11", &x);
            return;
        }
        if v["case"]["gen"] == "const-generic" {
            let x: Vec<XCase> = const_generic_cases(ctx.tier.name()).into_iter().filter(|x| x.detail["item"] == v["case"]["item"] && x.detail["entry"] == v["case"]["entry"]).collect();
            run_and_compare(rep, "c11", &x);
            return;
        }
        if v["case"]["gen"] == "generic-type-level" {
            let x: Vec<XCase> = generic_type_level_cases(ctx.tier.name()).into_iter().filter(|x| x.detail["item"] == v["case"]["item"] && x.detail["entry"] == v["case"]["entry"]).collect();
            run_and_compare(rep, "c11", &x);
            return;
        }
        let vec: Vec<usize> = v["case"]["vector"].as_array().unwrap().iter().map(|x| x.as_u64().unwrap() as usize).collect();
        let th = v["case"]["tier"] == "thorough";
        let g = gens.iter().find(|g| v["case"]["gen"] == g.0).map(|g| g.1).unwrap_or(gen_fields);
        let mut c = replay(|ch| g(ch, th), &vec).unwrap_or_else(|| crate::report::machinery("replayed vector is pruned"));
        c.gen = gens.iter().find(|g| v["case"]["gen"] == g.0).map(|g| g.0).unwrap_or("fields");
        cases.push(c);
    } else {
        for (name, g) in gens {
            let st = explore(|ch| g(ch, thorough), |_, mut c| { c.gen = name; cases.push(c) });
            rep.stats.add(&st);
        }
    }
    let mut x = Vec::new();
    for c in &cases {
        let bi = build_item(c);
        if bi.reject {
            let r = expand::expand_aligned(c.entry, "Default", &bi.item, &["Default".to_string()]);
            let rejected = match &r {
                Ok((_, Aligned::PerTrait(s))) => s[0].is_error(),
                Ok((_, Aligned::Whole(_))) => true,
                Err(_) => false,
            };
            rep.case(&format!("{} {}", c.entry.name(), bi.item), true);
            rep.outcome(if rejected { "must-reject:rejected" } else { "must-reject:accepted" });
            if !rejected {
                let mut atoms = BTreeSet::new();
                atoms.insert(format!("marked={}", c.marked.len()));
                atoms.insert(format!("value_on_variant={}", c.value_on_variant));
                rep.violation(Violation { symptom: "invalid-default-selection-accepted".into(), atoms, what: format!("`{}` is not rejected (default variants marked: {}, value on variant attribute: {})", bi.item, c.marked.len(), c.value_on_variant), detail: json!({"gen": c.gen, "vector": c.vector, "tier": ctx.tier.name(), "entry": c.entry.name(), "item": bi.item}), standalone: None });
            }
        } else {
            x.push(build(c, ctx.tier.name(), &bi));
        }
    }
    if ctx.replay.is_none() {
        x.extend(generic_type_level_cases(ctx.tier.name()));
        x.extend(fragment_precedence_cases(ctx.tier.name()));
        x.extend(const_generic_cases(ctx.tier.name()));
    }
    run_and_compare(rep, "c11", &x);
}

/// A default value built AROUND an `expr` fragment of a macro_rules! macro: the fragment is one operand, whatever
/// operators it contains (rustc does not treat the invisible group of a fragment as parentheses in proc-macro output).
fn fragment_precedence_cases(tier: &str) -> Vec<XCase> {
    let mut v = Vec::new();
    for entry in Entry::BOTH {
        let head = match entry {
            Entry::Attr => "#[derive_ex(Default)]".to_string(),
            Entry::Derive => "#[derive(Ex)]\n#[derive_ex(Default)]".to_string(),
        };
        // the fragment at the top level of the value, inside a call, inside a block, inside an array
        let item = "pub struct X { #[default($e * 2)] pub a: u8, #[default(10 - $e)] pub b: u8, #[default(-($e) as i8)] pub c: i8, #[default(wrap($e * 2))] pub d: u8, #[default({ 10 - $e })] pub e: u8, #[default([$e * 2, 0][0])] pub f: u8, pub g: [u8; $e * 2], #[default(\"ab\")] pub h: W<[u8; $e * 2]> }";
        let code = format!("use derive_ex::{{derive_ex, Ex}};\nfn wrap(x: u8) -> u8 {{ x }}\n#[derive(Debug)] pub struct W<A>(pub A);\nimpl<const K: usize> ::core::convert::From<&str> for W<[u8; K]> {{ fn from(s: &str) -> Self {{ W([s.len() as u8; K]) }} }}\nmacro_rules! mk {{ ($e:expr) => {{ #[derive(Debug)]\n{head}\n{item}\nfn direct() -> X {{ X {{ a: $e * 2, b: 10 - $e, c: -($e) as i8, d: wrap($e * 2), e: {{ 10 - $e }}, f: [$e * 2, 0][0], g: [0; $e * 2], h: W([2; $e * 2]) }} }} }} }}\nmk!(1 + 2);\npub fn run() -> String {{ format!(\"{{:?}}|{{:?}}\", <X as ::core::default::Default>::default(), direct()) }}\n");
        let mut atoms = BTreeSet::new();
        atoms.insert(format!("entry={}", entry.name()));
        atoms.insert("expr=around-an-expr-fragment".to_string());
        v.push(XCase {
            text: format!("{} {} [$e = 1 + 2]", entry.name(), item),
            code,
            expected: "X { a: 6, b: 7, c: -3, d: 6, e: 7, f: 6, g: [0, 0, 0, 0, 0, 0], h: W([2, 2, 2, 2, 2, 2]) }|X { a: 6, b: 7, c: -3, d: 6, e: 7, f: 6, g: [0, 0, 0, 0, 0, 0], h: W([2, 2, 2, 2, 2, 2]) }".to_string(),
            atoms,
            nontrivial: true,
            detail: json!({"gen": "fragment-precedence", "tier": tier, "entry": entry.name(), "item": item}),
            what: format!("derive_ex(Default) via {} on `{}` inside macro_rules! with $e = 1 + 2", entry.name(), item),
            inner: 1,
            symptom: "default-value-differs".into(),
            must_compile: true,
        });
    }
    // fragments of other kinds inside a value: a statement, a type, an expression used as a whole argument - none of
    // them may be disturbed (a parenthesized `let` is no statement; needless parentheses draw `unused_parens`)
    for entry in Entry::BOTH {
        let head = match entry {
            Entry::Attr => "#[derive_ex(Default)]".to_string(),
            Entry::Derive => "#[derive(Ex)]\n#[derive_ex(Default)]".to_string(),
        };
        let item = "pub struct X { #[default({ $s; $v + 1 })] pub a: u32, #[default(<$t>::MAX as u64 + 1)] pub b: u64, #[default(wrap($e))] pub c: u64 }";
        let code = format!("macro_rules! mk2 {{ ($s:stmt, $v:ident, $t:ty, $e:expr) => {{ #[deny(unused_parens)] pub mod d {{ use derive_ex::{{derive_ex, Ex}};\npub fn wrap(x: u64) -> u64 {{ x }}\n#[derive(Debug)]\n{head}\n{item}\n}} }} }}\nmk2!(let x = 3, x, u32, 1 + 2);\npub fn run() -> String {{ format!(\"{{:?}}\", <d::X as ::core::default::Default>::default()) }}\n");
        let mut atoms = BTreeSet::new();
        atoms.insert(format!("entry={}", entry.name()));
        atoms.insert("expr=stmt-ty-and-whole-argument-fragments".to_string());
        v.push(XCase {
            text: format!("{} {} [$s = let x = 3, $v = x, $t = u32, $e = 1 + 2]", entry.name(), item),
            code,
            expected: "X { a: 4, b: 4294967296, c: 3 }".to_string(),
            atoms,
            nontrivial: true,
            detail: json!({"gen": "fragment-precedence", "tier": tier, "entry": entry.name(), "item": item}),
            what: format!("derive_ex(Default) via {} on `{}` inside macro_rules! under deny(unused_parens)", entry.name(), item),
            inner: 1,
            symptom: "default-value-differs".into(),
            must_compile: true,
        });
    }
    // a type-level value that BEGINS with a block-like expression and goes on with an operator / a cast: it is an
    // expression, wherever the generated code puts it
    for entry in Entry::BOTH {
        let head = match entry {
            Entry::Attr => "#[derive_ex(Default, Add)]".to_string(),
            Entry::Derive => "#[derive(Ex)]\n#[derive_ex(Default, Add)]".to_string(),
        };
        let item = "#[default(if true { X(1) } else { X(2) } + X(10))] pub struct X(pub i32); | #[default(match 0 { _ => Y::A } as Y)] pub enum Y { A, B }";
        let code = format!("use derive_ex::{{derive_ex, Ex}};\n#[derive(Debug)]\n{head}\n#[default(if true {{ X(1) }} else {{ X(2) }} + X(10))] pub struct X(pub i32);\n#[derive(Debug)]\n{}\n#[default(match 0 {{ _ => Y::A }} as Y)] pub enum Y {{ A, B }}\npub fn run() -> String {{ format!(\"{{:?}}|{{:?}}\", <X as ::core::default::Default>::default(), <Y as ::core::default::Default>::default()) }}\n", head.replace(", Add", ""));
        let mut atoms = BTreeSet::new();
        atoms.insert(format!("entry={}", entry.name()));
        atoms.insert("type_level=begins-with-a-block-like-expression".to_string());
        v.push(XCase {
            text: format!("{} {}", entry.name(), item),
            code,
            expected: "X(11)|A".to_string(),
            atoms,
            nontrivial: true,
            detail: json!({"gen": "fragment-precedence", "tier": tier, "entry": entry.name(), "item": item}),
            what: format!("derive_ex(Default) via {} on `{}`", entry.name(), item),
            inner: 2,
            symptom: "default-value-differs".into(),
            must_compile: true,
        });
    }
    // one fragment of every expression kind whose reading depends on grouping, used as receiver / callee
    for entry in Entry::BOTH {
        let head = match entry {
            Entry::Attr => "#[derive_ex(Default)]".to_string(),
            Entry::Derive => "#[derive(Ex)]\n#[derive_ex(Default)]".to_string(),
        };
        let item = "pub struct X { #[default($u.pow(2))] pub a: i32, #[default($c.pow(2))] pub b: i32, #[default($r.len())] pub c: usize, #[default($p.len())] pub d: usize, #[default($f(3))] pub e: u8, #[default($b.pow(2))] pub f: i32 }";
        let code = format!("use derive_ex::{{derive_ex, Ex}};\nmacro_rules! mk3 {{ ($u:expr, $c:expr, $r:expr, $p:expr, $f:expr, $b:expr) => {{ #[derive(Debug)]\n{head}\n{item}\nfn direct() -> X {{ X {{ a: $u.pow(2), b: $c.pow(2), c: $r.len(), d: $p.len(), e: $f(3), f: $b.pow(2) }} }} }} }}\nmk3!(-3i32, 3u8 as i32, 0..3usize, &[1u8, 2][..], |x: u8| x + 1, 1i32 + 2);\npub fn run() -> String {{ format!(\"{{:?}}|{{:?}}\", <X as ::core::default::Default>::default(), direct()) }}\n");
        let mut atoms = BTreeSet::new();
        atoms.insert(format!("entry={}", entry.name()));
        atoms.insert("expr=fragment-of-every-grouping-dependent-kind".to_string());
        v.push(XCase {
            text: format!("{} {} [$u = -3i32, $c = 3u8 as i32, $r = 0..3usize, $p = &[1u8, 2][..], $f = |x: u8| x + 1, $b = 1i32 + 2]", entry.name(), item),
            code,
            expected: "X { a: 9, b: 9, c: 3, d: 2, e: 4, f: 9 }|X { a: 9, b: 9, c: 3, d: 2, e: 4, f: 9 }".to_string(),
            atoms,
            nontrivial: true,
            detail: json!({"gen": "fragment-precedence", "tier": tier, "entry": entry.name(), "item": item}),
            what: format!("derive_ex(Default) via {} on `{}` inside macro_rules! (unary / cast / range / reference / closure / binary fragments as receiver or callee)", entry.name(), item),
            inner: 1,
            symptom: "default-value-differs".into(),
            must_compile: true,
        });
    }
    v
}

/// Const parameters: a field whose type mentions only a CONST parameter (`[u8; N]`) and has no explicit value is
/// filled by its own `Default` impl, which the derived impl must require (`[u8; N]: Default` holds for N <= 32 only).
fn const_generic_cases(tier: &str) -> Vec<XCase> {
    let mut v = Vec::new();
    let items = [
        ("pub struct X<const N: usize> { #[default(7)] pub a: u8, pub b: [u8; N] }", "X<2>", "X { a: 7, b: [0, 0] }"),
        ("pub struct X<const N: usize>(pub [i8; N], #[default(9)] pub u8);", "X<3>", "X([0, 0, 0], 9)"),
        ("pub enum X<const N: usize> { A, #[default] B { q: [u8; N], #[default(4)] r: u8 } }", "X<1>", "B { q: [0], r: 4 }"),
        ("pub struct X<T, const N: usize> { pub a: [T; N], #[default(1)] pub b: u8 }", "X<u16, 2>", "X { a: [0, 0], b: 1 }"),
    ];
    for (item, inst, expected) in items {
        for entry in Entry::BOTH {
            let head = match entry {
                Entry::Attr => "#[derive_ex(Default)]".to_string(),
                Entry::Derive => "#[derive(Ex)]\n#[derive_ex(Default)]".to_string(),
            };
            let code = format!("use derive_ex::{{derive_ex, Ex}};\n#[derive(Debug)]\n{head}\n{item}\npub fn run() -> String {{ format!(\"{{:?}}\", <{inst} as ::core::default::Default>::default()) }}\n");
            let mut atoms = BTreeSet::new();
            atoms.insert(format!("entry={}", entry.name()));
            atoms.insert("generics=const-parameter".to_string());
            v.push(XCase {
                text: format!("{} {}", entry.name(), item),
                code,
                expected: expected.to_string(),
                atoms,
                nontrivial: true,
                detail: json!({"gen": "const-generic", "tier": tier, "entry": entry.name(), "item": item}),
                what: format!("derive_ex(Default) via {} on `{}` instantiated as {}", entry.name(), item, inst),
                inner: 1,
                symptom: "default-value-differs".into(),
                must_compile: true,
            });
        }
    }
    v
}

/// A type-level value on a GENERIC type whose parameter has no `Default` impl: the fields' own defaults are not used,
/// so `default()` must exist for that instantiation and return the type-level value.
fn generic_type_level_cases(tier: &str) -> Vec<XCase> {
    let mut v = Vec::new();
    let items = [
        ("#[default(Self::mk())] pub struct X<T: New> { pub a: T, pub b: u8 }", "X { a: T::new(), b: 3 }", "X { a: NoDef(7), b: 3 }"),
        ("#[default(Self::mk())] pub struct X<T: New>(pub T, #[default(9)] pub u8);", "X(T::new(), 3)", "X(NoDef(7), 3)"),
        ("#[default(Self::mk())] pub enum X<T: New> { A(T), B { q: Option<T> } }", "X::A(T::new())", "A(NoDef(7))"),
        ("#[default(X::B)] pub enum X<T: New> { A(T), B }", "X::B", "B"),
        // the bound the value needs is not declared on the type but given explicitly, next to the value or in the list
        ("#[default(X::A(T::new()), bound(T: New))] pub enum X<T> { A(T), B }", "X::A(T::new())", "A(NoDef(7))"),
        ("#[default(X(T::new(), 3), bound(T: New))] pub struct X<T>(pub T, pub u8);", "X(T::new(), 3)", "X(NoDef(7), 3)"),
        ("#[default(X::A(T::new()))] pub enum X<T> { A(T), B } //list:Default(bound(T: New))", "X::A(T::new())", "A(NoDef(7))"),
        ("#[default(X { a: T::new(), b: 3 })] pub struct X<T> { pub a: T, pub b: u8 } //list:Default, bound(T: New)", "X { a: T::new(), b: 3 }", "X { a: NoDef(7), b: 3 }"),
    ];
    for (item, mk, expected) in items {
        let (item, list) = match item.split_once(" //list:") {
            Some((i, l)) => (i, l),
            None => (item, "Default"),
        };
        for entry in Entry::BOTH {
            let head = match entry {
                Entry::Attr => format!("#[derive_ex({list})]"),
                Entry::Derive => format!("#[derive(Ex)]\n#[derive_ex({list})]"),
            };
            let code = format!("use derive_ex::{{derive_ex, Ex}};\npub trait New {{ fn new() -> Self; }}\n#[derive(Debug)] pub struct NoDef(pub u8);\nimpl New for NoDef {{ fn new() -> Self {{ NoDef(7) }} }}\n#[derive(Debug)]\n{head}\n{item}\nimpl<T: New> X<T> {{ pub fn mk() -> Self {{ {mk} }} }}\npub fn run() -> String {{ format!(\"{{:?}}\", <X<NoDef> as ::core::default::Default>::default()) }}\n");
            let mut atoms = BTreeSet::new();
            atoms.insert(format!("entry={}", entry.name()));
            atoms.insert("type_level=generic-without-Default".to_string());
            v.push(XCase {
                text: format!("{} derive_ex({}) {}", entry.name(), list, item),
                code,
                expected: expected.to_string(),
                atoms,
                nontrivial: true,
                detail: json!({"gen": "generic-type-level", "tier": tier, "entry": entry.name(), "item": item}),
                what: format!("derive_ex(Default) via {} on `{}` instantiated with a parameter that has no Default", entry.name(), item),
                inner: 1,
                symptom: "default-value-differs".into(),
                must_compile: true,
            });
        }
    }
    v
}
