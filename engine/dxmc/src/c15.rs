//! C15 — same impls via either entry point, merged or split lists, any co-derived set.
//! Channel E; the ways of splitting a list are explored as a graph (BFS, seen-set).

use crate::c19::pieces;
use crate::expand::{self, Aligned, Entry, Slot};
use crate::explore::{par_map, threads};
use crate::refmodel::{affects, Tr};
use crate::report::{Report, Violation};
use crate::seeds::{all_seeds, Seed};
use crate::Ctx;
use serde_json::json;
use std::collections::{BTreeSet, VecDeque};

#[derive(Clone, Debug)]
struct Job {
    seed: usize,
    kind: &'static str,
    entry: Entry,
    /// macro argument (Attr entry) — for Derive everything is in `item`
    attr: String,
    item: String,
    /// trait names of this variant in output order
    traits: Vec<String>,
    /// for each trait of this variant: index into the baseline's trait list
    map: Vec<usize>,
}

/// per requested trait: (is_error, flattened tokens)
fn slots_of(entry: Entry, attr: &str, item: &str, traits: &[String]) -> Result<Vec<(bool, String)>, String> {
    let ts = match entry {
        Entry::Attr => expand::expand_attr_iterated(attr, item)?,
        Entry::Derive => expand::expand_derive_iterated(item)?,
    };
    let items = expand::parse_output(ts, entry == Entry::Attr)?;
    match expand::align(&items, traits)? {
        Aligned::PerTrait(s) => Ok(s.iter().map(|x: &Slot| (x.is_error(), x.flat())).collect()),
        Aligned::Whole(m) => Err(format!("whole: {m}")),
    }
}

/// names of helper attributes present anywhere on the item
fn helper_names(item: &str) -> BTreeSet<String> {
    let mut out = BTreeSet::new();
    fn scan(attrs: &[syn::Attribute], out: &mut BTreeSet<String>) {
        for a in attrs {
            if let Some(i) = a.path().get_ident() {
                let s = i.to_string();
                if ["debug", "default", "ord", "partial_ord", "eq", "partial_eq", "hash"].contains(&s.as_str()) {
                    out.insert(s);
                }
            }
        }
    }
    if let Ok(it) = syn::parse_str::<syn::Item>(item) {
        match it {
            syn::Item::Struct(s) => {
                scan(&s.attrs, &mut out);
                for f in s.fields.iter() {
                    scan(&f.attrs, &mut out);
                }
            }
            syn::Item::Enum(e) => {
                scan(&e.attrs, &mut out);
                for v in e.variants.iter() {
                    scan(&v.attrs, &mut out);
                    for f in v.fields.iter() {
                        scan(&f.attrs, &mut out);
                    }
                }
            }
            _ => {}
        }
    }
    out
}

fn helper_affects(h: &str, t: &str) -> bool {
    match h {
        "debug" => t == "Debug",
        "default" => t == "Default",
        _ => match (Tr::ALL.iter().find(|x| x.attr() == h), Tr::from_name(t)) {
            (Some(a), Some(t)) => affects(*a, t),
            _ => false,
        },
    }
}

fn permutations(n: usize, limit: usize) -> Vec<Vec<usize>> {
    let mut out = Vec::new();
    let mut cur: Vec<usize> = (0..n).collect();
    fn heap(k: usize, cur: &mut Vec<usize>, out: &mut Vec<Vec<usize>>, limit: usize) {
        if out.len() >= limit {
            return;
        }
        if k == 1 {
            out.push(cur.clone());
            return;
        }
        for i in 0..k {
            heap(k - 1, cur, out, limit);
            if k % 2 == 0 {
                cur.swap(i, k - 1);
            } else {
                cur.swap(0, k - 1);
            }
        }
    }
    heap(n, &mut cur, &mut out, limit);
    out
}

pub fn run(ctx: &Ctx, rep: &mut Report) {
    let thorough = ctx.tier.is_thorough();
    rep.rule = "terminal state = (seed item, variant of requesting the same impls: other entry point | a split of the trait list into consecutive derive_ex attributes (graph of split operations explored breadth-first with a seen-set; two-way splits also with foreign attributes between the lists) | a sub-list containing one trait whose helper attributes all affect it | a permutation of the list); oracle = token equality of each trait's generated impls with the merged attribute-macro baseline; non-trivial = the variant differs textually from the baseline and at least one impl was compared".into();
    rep.assumptions = vec!["token comparison ignores spacing; sub-list comparison is restricted to items whose helper attributes all affect the retained trait (documented attribute/trait table, I1)".into()];
    let mut seeds: Vec<Seed> = all_seeds(thorough).into_iter().filter(|s| !s.is_impl && s.entry == Entry::Attr && !s.traits.is_empty()).collect();
    let mut jobs: Vec<Job> = Vec::new();
    let mut extra_seeds: Vec<Seed> = Vec::new();
    let mut extra_jobs: Vec<(usize, Job)> = Vec::new();
    let mut split_states = 0u64;
    let mut split_edges = 0u64;
    for (si, s) in seeds.iter().enumerate() {
        let ps = pieces(&s.attr);
        let tp: Vec<&(String, String)> = ps.iter().filter(|p| !p.0.is_empty()).collect();
        let shared: Vec<String> = ps.iter().filter(|p| p.0.is_empty()).map(|p| p.1.clone()).collect();
        let n = tp.len();
        if n != s.traits.len() || n == 0 {
            continue;
        }
        let id: Vec<usize> = (0..n).collect();
        // (a) derive entry, merged
        jobs.push(Job { seed: si, kind: "entry", entry: Entry::Derive, attr: String::new(), item: format!("#[derive_ex({})] {}", s.attr, s.item), traits: s.traits.clone(), map: id.clone() });
        // (a') `#[derive(Ex)]` next to the list written with the crate path: that list is an attribute-macro invocation
        //      (rustc expands it after the derive), not a helper attribute of the derive - the impls must exist ONCE
        // (not for seeds with invisible groups: this relation re-serializes the item as text)
        for path in ["derive_ex::derive_ex", "::derive_ex::derive_ex"].iter().filter(|_| !s.item.contains("__FRAG")) {
            jobs.push(Job { seed: si, kind: "derive-next-to-qualified-list", entry: Entry::Derive, attr: String::new(), item: format!("#[{path}({})] {}", s.attr, s.item), traits: s.traits.clone(), map: id.clone() });
        }
        // (b) splits: BFS over cut sets
        if n >= 2 {
            let mut seen: BTreeSet<Vec<usize>> = BTreeSet::new();
            let mut q: VecDeque<Vec<usize>> = VecDeque::new();
            seen.insert(vec![]);
            q.push_back(vec![]);
            while let Some(cuts) = q.pop_front() {
                split_states += 1;
                if !cuts.is_empty() {
                    // groups
                    let mut groups: Vec<Vec<usize>> = Vec::new();
                    let mut start = 0;
                    for &c in cuts.iter().chain(std::iter::once(&n)) {
                        groups.push((start..c).collect());
                        start = c;
                    }
                    let text = |g: &Vec<usize>| -> String { g.iter().map(|&i| tp[i].1.clone()).chain(shared.iter().cloned()).collect::<Vec<_>>().join(", ") };
                    let rest: String = groups[1..].iter().map(|g| format!("#[derive_ex({})] ", text(g))).collect();
                    jobs.push(Job { seed: si, kind: "split", entry: Entry::Attr, attr: text(&groups[0]), item: format!("{rest}{}", s.item), traits: s.traits.clone(), map: id.clone() });
                    if thorough || cuts.len() == 1 {
                        jobs.push(Job { seed: si, kind: "split", entry: Entry::Derive, attr: String::new(), item: format!("#[derive_ex({})] {rest}{}", text(&groups[0]), s.item), traits: s.traits.clone(), map: id.clone() });
                    }
                    if cuts.len() == 1 {
                        // the later list written with the crate-qualified attribute path: rustc expands it as a second,
                        // separate invocation on what the first one re-emits
                        for path in ["derive_ex::derive_ex", "::derive_ex::derive_ex"] {
                            let q: String = groups[1..].iter().map(|g| format!("#[{path}({})] ", text(g))).collect();
                            jobs.push(Job { seed: si, kind: "split-qualified-path", entry: Entry::Attr, attr: text(&groups[0]), item: format!("{q}{}", s.item), traits: s.traits.clone(), map: id.clone() });
                        }
                    }
                    if cuts.len() == 1 {
                        // the lists need not be adjacent: foreign attributes in between
                        let far: String = groups[1..].iter().map(|g| format!("#[doc = \" d\"] #[derive_ex({})] #[doc(hidden)] ", text(g))).collect();
                        jobs.push(Job { seed: si, kind: "split-nonadjacent", entry: Entry::Attr, attr: text(&groups[0]), item: format!("{far}{}", s.item), traits: s.traits.clone(), map: id.clone() });
                        jobs.push(Job { seed: si, kind: "split-nonadjacent", entry: Entry::Derive, attr: String::new(), item: format!("#[derive_ex({})] {far}{}", text(&groups[0]), s.item), traits: s.traits.clone(), map: id.clone() });
                    }
                }
                for c in 1..n {
                    if !cuts.contains(&c) {
                        let mut nx = cuts.clone();
                        nx.push(c);
                        nx.sort();
                        split_edges += 1;
                        if seen.insert(nx.clone()) {
                            q.push_back(nx);
                        }
                    }
                }
            }
        }
        // (b') a shared bound on one attribute of a split == the same bound as per-trait argument
        //      in the merged list (levels 2 and 3 collapse when only one of them is present);
        //      a later/earlier attribute without a bound of its own must not inherit it
        if n >= 2 && shared.is_empty() && tp.iter().all(|p| !p.1.contains('(')) {
            for cut in 1..n {
                for first_has in [true, false] {
                    let b = "bound(T: Mk, ..)";
                    let g1: Vec<String> = (0..cut).map(|i| tp[i].1.clone()).collect();
                    let g2: Vec<String> = (cut..n).map(|i| tp[i].1.clone()).collect();
                    let merged: Vec<String> = (0..n).map(|i| if (i < cut) == first_has { format!("{}({})", tp[i].1, b) } else { tp[i].1.clone() }).collect();
                    let (a1, a2) = if first_has { (format!("{}, {}", g1.join(", "), b), g2.join(", ")) } else { (g1.join(", "), format!("{}, {}", g2.join(", "), b)) };
                    // baseline of this variant is the merged per-trait form: registered as its own seed
                    extra_seeds.push(Seed { origin: format!("{}+shared-bound", s.origin), attr: merged.join(", "), traits: s.traits.clone(), item: s.item.clone(), entry: Entry::Attr, is_impl: false });
                    extra_jobs.push((extra_seeds.len() - 1, Job { seed: 0, kind: "split-shared-bound", entry: Entry::Attr, attr: a1.clone(), item: format!("#[derive_ex({a2})] {}", s.item), traits: s.traits.clone(), map: id.clone() }));
                    extra_jobs.push((extra_seeds.len() - 1, Job { seed: 0, kind: "split-shared-bound", entry: Entry::Derive, attr: String::new(), item: format!("#[derive_ex({a1})] #[derive_ex({a2})] {}", s.item), traits: s.traits.clone(), map: id.clone() }));
                }
            }
        }
        // (b'') a per-trait argument next to a shared bound: a list that holds a single trait keeps both
        if n >= 2 && shared.is_empty() && tp.iter().all(|p| !p.1.contains('(')) && s.item.contains("<T") {
            let merged: Vec<String> = (0..n).map(|i| if i == 0 { format!("{}(bound(T: Mk, ..))", tp[i].1) } else { tp[i].1.clone() }).collect();
            let shared_b = "bound(T: Mq, ..)";
            extra_seeds.push(Seed { origin: format!("{}+per-trait-and-shared-bound", s.origin), attr: format!("{}, {}", merged.join(", "), shared_b), traits: s.traits.clone(), item: s.item.clone(), entry: Entry::Attr, is_impl: false });
            let a1 = format!("{}, {}", merged[0], shared_b);
            let a2 = format!("{}, {}", merged[1..].join(", "), shared_b);
            extra_jobs.push((extra_seeds.len() - 1, Job { seed: 0, kind: "split-per-trait-and-shared-bound", entry: Entry::Attr, attr: a1.clone(), item: format!("#[derive_ex({a2})] {}", s.item), traits: s.traits.clone(), map: id.clone() }));
            extra_jobs.push((extra_seeds.len() - 1, Job { seed: 0, kind: "split-per-trait-and-shared-bound", entry: Entry::Derive, attr: String::new(), item: format!("#[derive_ex({a1})] #[derive_ex({a2})] {}", s.item), traits: s.traits.clone(), map: id.clone() }));
        }
        // (b3) a per-trait bound WITHOUT `..` stops the resolution: the shared bound of the same list is not consulted
        //      for that trait, so moving the trait into a list of its own (without the shared bound) changes nothing
        if n >= 2 && shared.is_empty() && tp.iter().all(|p| !p.1.contains('(')) && s.item.contains("<T") {
            for stop in ["bound(T: Mk)", "bound()"] {
                let merged: Vec<String> = (0..n).map(|i| if i == 0 { format!("{}({})", tp[i].1, stop) } else { tp[i].1.clone() }).collect();
                let shared_b = "bound(T: Mq)";
                extra_seeds.push(Seed { origin: format!("{}+stopping-per-trait-bound", s.origin), attr: format!("{}, {}", merged.join(", "), shared_b), traits: s.traits.clone(), item: s.item.clone(), entry: Entry::Attr, is_impl: false });
                let a1 = merged[0].clone();
                let a2 = format!("{}, {}", merged[1..].join(", "), shared_b);
                extra_jobs.push((extra_seeds.len() - 1, Job { seed: 0, kind: "split-stopping-per-trait-bound", entry: Entry::Attr, attr: a1.clone(), item: format!("#[derive_ex({a2})] {}", s.item), traits: s.traits.clone(), map: id.clone() }));
                extra_jobs.push((extra_seeds.len() - 1, Job { seed: 0, kind: "split-stopping-per-trait-bound", entry: Entry::Derive, attr: String::new(), item: format!("#[derive_ex({a1})] #[derive_ex({a2})] {}", s.item), traits: s.traits.clone(), map: id.clone() }));
            }
        }
        // (c) sub-lists containing t
        if n >= 2 {
            let helpers = helper_names(&s.item);
            for t in 0..n {
                if !helpers.iter().all(|h| helper_affects(h, &s.traits[t])) {
                    continue;
                }
                let others: Vec<usize> = (0..n).filter(|&i| i != t).collect();
                let max_mask = 1u32 << others.len();
                for m in 0..max_mask - 1 {
                    // m = mask of the others that are kept (all kept = baseline, excluded)
                    let keep: Vec<usize> = (0..n).filter(|&i| i == t || others.iter().position(|&o| o == i).map(|k| m & (1 << k) != 0).unwrap_or(false)).collect();
                    if !thorough && keep.len() > 1 && keep.len() < n - 1 {
                        continue;
                    }
                    let attr: Vec<String> = keep.iter().map(|&i| tp[i].1.clone()).chain(shared.iter().cloned()).collect();
                    // only the slot of t is compared
                    let pos = keep.iter().position(|&i| i == t).unwrap();
                    let mut map = vec![usize::MAX; keep.len()];
                    map[pos] = t;
                    jobs.push(Job { seed: si, kind: "sublist", entry: Entry::Attr, attr: attr.join(", "), item: s.item.clone(), traits: keep.iter().map(|&i| s.traits[i].clone()).collect(), map });
                }
            }
        }
        // (d) permutations
        if n >= 2 {
            let lim = if thorough { 120 } else { 24 };
            for p in permutations(n, lim).into_iter().skip(0) {
                if p == id {
                    continue;
                }
                let attr: Vec<String> = p.iter().map(|&i| tp[i].1.clone()).chain(shared.iter().cloned()).collect();
                jobs.push(Job { seed: si, kind: "permutation", entry: Entry::Attr, attr: attr.join(", "), item: s.item.clone(), traits: p.iter().map(|&i| s.traits[i].clone()).collect(), map: p.clone() });
            }
        }
    }
    // (e) helper lists on a field / variant: one `#[derive_ex(A(..), B(..))]` == one list per trait, in either order,
    //     adjacent or not
    {
        let shapes: [(&str, &[&str]); 4] = [
            ("pub struct X<T>(§ Vec<T>, u8);", &["Clone", "Default", "Debug"]),
            ("pub struct X<T> { q0: u8, § _q0: Option<T> }", &["PartialEq", "Hash", "Clone"]),
            ("pub enum X<T> { A, B(§ Vec<T>, u8), C { q0: T } }", &["Clone", "Debug", "PartialEq"]),
            ("pub enum X<T> { A, § B(Vec<T>, u8), C { q0: T } }", &["Clone", "Debug", "Hash"]),
        ];
        for (shape, traits) in shapes {
            for k in 2..=traits.len() {
                let ts: Vec<String> = traits[..k].iter().map(|t| t.to_string()).collect();
                let per: Vec<String> = ts.iter().enumerate().map(|(i, t)| format!("{t}(bound(T: M{}, ..))", i + 1)).collect();
                let merged = shape.replace('§', &format!("#[derive_ex({})]", per.join(", ")));
                extra_seeds.push(Seed { origin: "field-level-lists".into(), attr: ts.join(", "), traits: ts.clone(), item: merged, entry: Entry::Attr, is_impl: false });
                let si = extra_seeds.len() - 1;
                let id: Vec<usize> = (0..k).collect();
                let fwd: String = per.iter().map(|p| format!("#[derive_ex({p})] ")).collect();
                let rev: String = per.iter().rev().map(|p| format!("#[derive_ex({p})] ")).collect();
                let far: String = per.iter().map(|p| format!("#[doc = \" d\"] #[derive_ex({p})] #[doc(hidden)] ")).collect();
                for split in [fwd, rev, far] {
                    for entry in Entry::BOTH {
                        let item = shape.replace('§', split.trim_end());
                        let (attr, item) = match entry {
                            Entry::Attr => (ts.join(", "), item),
                            Entry::Derive => (String::new(), format!("#[derive_ex({})] {item}", ts.join(", "))),
                        };
                        extra_jobs.push((si, Job { seed: 0, kind: "field-level-split", entry, attr, item, traits: ts.clone(), map: id.clone() }));
                    }
                }
            }
        }
    }
    let base_n = seeds.len();
    for (k, mut j) in extra_jobs {
        j.seed = base_n + k;
        jobs.push(j);
    }
    seeds.extend(extra_seeds);
    if let Some(p) = &ctx.replay {
        let v: serde_json::Value = serde_json::from_str(&std::fs::read_to_string(p).expect("replay file")).expect("replay json");
        let (a, i, e) = (v["case"]["attr"].as_str().unwrap_or("").to_string(), v["case"]["item"].as_str().unwrap_or("").to_string(), v["case"]["entry"].as_str().unwrap_or("").to_string());
        jobs.retain(|j| j.attr == a && j.item == i && j.entry.name() == e);
    }
    // baselines
    let bases = par_map(&seeds, threads(), |_, s| slots_of(Entry::Attr, &s.attr, &s.item, &s.traits));
    let res = par_map(&jobs, threads(), |_, j| slots_of(j.entry, &j.attr, &j.item, &j.traits));
    rep.stats.states = 1 + seeds.len() as u64 + jobs.len() as u64 + split_states;
    rep.stats.transitions = seeds.len() as u64 + jobs.len() as u64 + split_edges;
    rep.stats.terminals = jobs.len() as u64;
    rep.set("split_graph_states", json!(split_states));
    rep.set("split_graph_transitions", json!(split_edges));
    let mut reported_baselines: BTreeSet<usize> = BTreeSet::new();
    for (j, r) in jobs.iter().zip(res.iter()) {
        let s = &seeds[j.seed];
        let text = format!("{} {} #[derive_ex({})] {}", j.kind, j.entry.name(), j.attr, j.item);
        let base = match &bases[j.seed] {
            Ok(b) => b,
            Err(e) => {
                rep.case(&text, false);
                if s.origin == "gen:failing-sibling" {
                    // one listed trait cannot be generated for this item: that is ITS error - the impl of every other
                    // trait must be what it is without that trait in the list
                    if reported_baselines.insert(j.seed) {
                        let mut atoms = BTreeSet::new();
                        atoms.insert("kind=failing-sibling".to_string());
                        atoms.insert("group=failing-sibling".to_string());
                        rep.outcome("failing-sibling:takes-the-others-with-it");
                        rep.violation(Violation { symptom: "co-listed-trait-changes-impl".into(), atoms, what: format!("#[derive_ex({})] {}: the expansion is not one item per listed trait ({}): a trait that cannot be generated takes the impls of the others with it", s.attr, s.item, e.lines().next().unwrap_or("")), detail: json!({"kind": "failing-sibling", "entry": "attr", "attr": s.attr, "item": s.item}), standalone: None });
                    }
                    continue;
                }
                rep.outcome("skipped:baseline-not-per-trait");
                continue;
            }
        };
        let mut atoms = BTreeSet::new();
        atoms.insert(format!("kind={}", j.kind));
        atoms.insert(format!("entry={}", j.entry.name()));
        atoms.insert(format!("group={}", j.kind));
        let detail = json!({"kind": j.kind, "entry": j.entry.name(), "attr": j.attr, "item": j.item, "baseline_attr": s.attr, "baseline_item": s.item});
        match r {
            Err(e) => {
                rep.case(&text, true);
                rep.violation(Violation { symptom: "variant-not-per-trait".into(), atoms, what: format!("{} of #[derive_ex({})] {}: {}", j.kind, s.attr, s.item.chars().take(100).collect::<String>(), e.lines().next().unwrap_or("")), detail, standalone: None });
            }
            Ok(slots) => {
                let mut compared = 0;
                let mut bad = None;
                for (k, sl) in slots.iter().enumerate() {
                    if j.map[k] == usize::MAX {
                        continue;
                    }
                    compared += 1;
                    let b = &base[j.map[k]];
                    if sl.1 != b.1 && bad.is_none() {
                        bad = Some(format!("impl of {} differs from the merged attribute-macro baseline ({} vs {})", j.traits[k], if sl.0 { "error" } else { "impl" }, if b.0 { "error" } else { "impl" }));
                    }
                }
                rep.case(&text, compared > 0);
                rep.outcome(&format!("{}:{}", j.kind, if bad.is_none() { "same" } else { "differs" }));
                if let Some(what) = bad {
                    rep.violation(Violation { symptom: format!("{}-changes-impl", j.kind), atoms, what: format!("{} [{}] of #[derive_ex({})] {}: {}", j.kind, j.attr, s.attr, s.item.chars().take(100).collect::<String>(), what), detail, standalone: None });
                } else if rep.samples.len() < 5 && j.kind != "entry" {
                    rep.sample(json!({"kind": j.kind, "entry": j.entry.name(), "attr": j.attr, "item": j.item, "baseline": format!("#[derive_ex({})] {}", s.attr, s.item)}));
                }
            }
        }
    }
    // (d) the attribute entry must leave behind exactly what the derive entry was given, minus the attributes the
    //     derived traits own (for the derive entry those are inert helper attributes): a helper attribute left in
    //     place makes the same definition fail through one entry point and work through the other
    let replay_item: Option<(String, String)> = ctx.replay.as_ref().and_then(|p| std::fs::read_to_string(p).ok()).and_then(|t| serde_json::from_str::<serde_json::Value>(&t).ok()).filter(|v| v["case"]["kind"] == "entry-item").map(|v| (v["case"]["attr"].as_str().unwrap_or("").to_string(), v["case"]["item"].as_str().unwrap_or("").to_string()));
    if ctx.replay.is_none() || replay_item.is_some() {
        let outs = par_map(&seeds, threads(), |_, s| {
            if let Some((a, i)) = &replay_item {
                if &s.attr != a || &s.item != i {
                    return None;
                }
            }
            let want = crate::c14::strip_owned_text(&s.item, &s.traits).ok()?;
            let ts = crate::expand::expand_attr(&s.attr, &s.item).ok()?;
            let items = crate::expand::parse_output(ts, true).ok()?;
            match items.first() {
                Some(crate::expand::OutItem::Item(i)) => Some((want, crate::expand::flat_str(quote::ToTokens::to_token_stream(i)))),
                _ => None,
            }
        });
        for (s, o) in seeds.iter().zip(outs.iter()) {
            let Some((want, got)) = o else { continue };
            rep.stats.terminals += 1;
            rep.case(&format!("entry-item attr #[derive_ex({})] {}", s.attr, s.item), true);
            rep.outcome(if want == got { "entry-item:same" } else { "entry-item:differs" });
            if want != got {
                let mut atoms = BTreeSet::new();
                atoms.insert("kind=entry-item".to_string());
                atoms.insert("group=entry-item".to_string());
                rep.violation(Violation { symptom: "attribute-entry-leaves-a-different-item".into(), atoms, what: format!("#[derive_ex({})] {}: the attribute macro re-emits `{}`, the derive macro's view of the item is `{}`", s.attr, s.item.chars().take(100).collect::<String>(), got.chars().take(160).collect::<String>(), want.chars().take(160).collect::<String>()), detail: json!({"kind": "entry-item", "entry": "attr", "attr": s.attr, "item": s.item, "expected_item": want, "observed_item": got}), standalone: None });
            }
        }
    }
    if ctx.replay.is_none() {
        let inputs: Vec<crate::conform::Input> = seeds.iter().take(base_n).filter(|s| !s.attr.contains("dump") && !s.item.contains("__FRAG")).flat_map(|s| Entry::BOTH.iter().map(move |&e| crate::conform::Input { entry: e, attr: s.attr.clone(), item: s.item.clone() })).collect();
        crate::conform::validate_or_die(rep, "c15p", &inputs);
    }
    rep.set("seeds", json!(seeds.len()));
}
