//! C10 — Debug prints like the std derive minus ignored fields; transparent delegates.
//! Channel X with a std-derived twin as oracle; channel E for the rejection of several
//! transparent fields (DESIGN.md 5/C10).

use crate::expand::{self, Aligned, Entry};
use crate::explore::{explore, replay, Ch};
use crate::gen::*;
use crate::report::{Report, Violation};
use crate::xrun::{run_and_compare, XCase};
use crate::Ctx;
use serde_json::json;
use std::collections::BTreeSet;

pub const SPECS: [&str; 14] = ["{:?}", "{:#?}", "{:5?}", "{:<8?}", "{:*^9?}", "{:+?}", "{:08?}", "{:.1?}", "{:x?}", "{:X?}", "{:#x?}", "{:#10.3?}", "{:>+7?}", "{:_<#6X?}"];

#[derive(Clone, Copy, PartialEq, Eq, Debug)]
enum Mark {
    Plain,
    Ignore,
    Transparent,
    /// `#[debug(transparent, ignore)]` — only generated next to another transparent field (rejection)
    TransparentIgnore,
}

#[derive(Clone, Debug)]
struct Case {
    vector: Vec<usize>,
    shape: Shape,
    marks: Vec<Vec<Mark>>,
    generic: bool,
    entry: Entry,
    /// named fields are raw identifiers
    raw: bool,
    /// the definition comes out of a macro_rules! macro; the #[debug(..)] attributes arrive as `meta` fragments of the call
    via_macro: bool,
    /// enum variants are named with raw identifiers (r#fn, r#match, ..), unit variants included
    raw_variants: bool,
    /// generic types: `Debug(bound(T: Debug))` instead of the default bounds
    explicit_bound: bool,
    /// generic types: the parameter is used behind a reference (`<'a, T>`, field type `&'a T`)
    by_ref: bool,
}

const TYS: [&str; 4] = ["i32", "&'static str", "f64", "Inner"];
const VALS: [[&str; 2]; 4] = [["-5", "300"], ["\"a\\\"b\"", "\"\""], ["1.5", "-0.25"], ["Inner { a: 7, b: None }", "Inner { a: 0, b: Some(-3) }"]];

fn tyidx(vi: usize, fi: usize) -> usize {
    (vi + fi) % 4
}

fn gen(ch: &mut Ch, thorough: bool) -> Option<Case> {
    let shape = if thorough { pick_shape(ch, 3, 3, false) } else { pick_shape(ch, 2, 2, false) };
    let generic = ch.flag();
    let entry = *ch.of(&Entry::BOTH);
    let max_dev = if thorough { 3 } else { 2 };
    if thorough && shape.variants.len() == 3 && shape.total_fields() > 6 {
        return None;
    }
    let mut dev = 0;
    let mut marks = Vec::new();
    for v in &shape.variants {
        let mut m = Vec::new();
        let mut transparent = 0;
        for _ in 0..v.n {
            let k = *ch.of(&[Mark::Plain, Mark::Ignore, Mark::Transparent, Mark::TransparentIgnore]);
            if k != Mark::Plain {
                dev += 1;
                if dev > max_dev {
                    return None;
                }
            }
            if k == Mark::Transparent || k == Mark::TransparentIgnore {
                transparent += 1;
                if transparent > 2 {
                    return None;
                }
            }
            m.push(k);
        }
        // transparent+ignore on one field is only explored where the statement is unambiguous:
        // next to another transparent field (must be rejected)
        if m.contains(&Mark::TransparentIgnore) && transparent < 2 {
            return None;
        }
        marks.push(m);
    }
    let explicit_bound = ch.flag();
    if explicit_bound && (!generic || entry == Entry::Derive || dev > 1) {
        return None;
    }
    let by_ref = ch.flag();
    if by_ref && (!generic || dev > 1) {
        return None;
    }
    let raw = ch.flag();
    if raw && (generic || entry == Entry::Derive || dev > 1 || !shape.variants.iter().any(|v| v.kind == SKind::Named && v.n > 0)) {
        return None;
    }
    let raw_variants = ch.flag();
    if raw_variants && (!shape.is_enum || generic || raw || explicit_bound || dev > 1 || entry == Entry::Derive) {
        return None;
    }
    let via_macro = ch.flag();
    if via_macro && (dev == 0 || raw || raw_variants || explicit_bound || entry == Entry::Derive && !thorough) {
        return None;
    }
    if generic && !shape.variants.iter().enumerate().any(|(vi, v)| (0..v.n).any(|fi| tyidx(vi, fi) == 0)) {
        return None; // no field of type T
    }
    if entry == Entry::Derive && (dev > 1 || (!thorough && shape.variants.len() > 1)) {
        return None;
    }
    if generic && dev > 1 && !thorough {
        return None;
    }
    Some(Case { vector: ch.vector(), shape, marks, generic, entry, raw, via_macro, raw_variants, explicit_bound, by_ref })
}

/// replaces the identifier `from` (as a whole word) by `to`
pub fn replace_word(text: &str, from: &str, to: &str) -> String {
    let b: Vec<char> = text.chars().collect();
    let f: Vec<char> = from.chars().collect();
    let mut out = String::new();
    let mut i = 0;
    let is_id = |c: char| c.is_alphanumeric() || c == '_';
    while i < b.len() {
        if b[i..].starts_with(&f) && (i == 0 || !is_id(b[i - 1]) && b[i - 1] != '#') && (i + f.len() >= b.len() || !is_id(b[i + f.len()])) {
            out.push_str(to);
            i += f.len();
        } else {
            out.push(b[i]);
            i += 1;
        }
    }
    out
}

fn two_transparent(c: &Case) -> bool {
    c.marks.iter().any(|m| m.iter().filter(|k| matches!(**k, Mark::Transparent | Mark::TransparentIgnore)).count() >= 2)
}

fn item_of(c: &Case) -> ItemDef {
    let ty = |vi: usize, fi: usize| if c.generic && tyidx(vi, fi) == 0 { if c.by_ref { "&'a T".to_string() } else { "T".to_string() } } else { TYS[tyidx(vi, fi)].to_string() };
    let attrs = |vi: usize, fi: usize| match c.marks[vi][fi] {
        Mark::Plain => vec![],
        Mark::Ignore => vec!["#[debug(ignore)]".to_string()],
        Mark::Transparent => vec!["#[debug(transparent)]".to_string()],
        Mark::TransparentIgnore => vec!["#[debug(transparent, ignore)]".to_string()],
    };
    let mut it = c.shape.item(if c.by_ref { "<'a, T>" } else if c.generic { "<T>" } else { "" }, &ty, &attrs);
    it.vis = "pub".into();
    make_fields_pub(&mut it);
    it
}
fn make_fields_pub(it: &mut ItemDef) {
    if let Body::Struct(f) = &mut it.body {
        if !matches!(f, FieldsDef::Unit) {
            for x in f.fields_mut() {
                x.vis = "pub".into();
            }
        }
    }
}

fn twin_of(c: &Case) -> ItemDef {
    // the same type with ignored fields deleted (names of remaining named fields kept)
    let sh = &c.shape;
    let mk = |vi: usize| -> FieldsDef {
        let v = &sh.variants[vi];
        let fs: Vec<FieldDef> = (0..v.n).filter(|&fi| c.marks[vi][fi] != Mark::Ignore).map(|fi| {
            let t = TYS[tyidx(vi, fi)].to_string(); // the twin is concrete (T := i32)
            let mut f = FieldDef::tuple(&t);
            if v.kind == SKind::Named {
                f.name = Some(fname(fi));
            }
            f.vis = if sh.is_enum { String::new() } else { "pub".into() };
            f
        }).collect();
        match v.kind {
            SKind::Unit => FieldsDef::Unit,
            SKind::Tuple => FieldsDef::Tuple(fs),
            SKind::Named => FieldsDef::Named(fs),
        }
    };
    // a generic parameter that is no longer used would not compile: keep it alive with PhantomData only if needed
    let mut it = if sh.is_enum { ItemDef::enm("X", "", (0..sh.variants.len()).map(|vi| VariantDef::new(SHAPE_VNAMES[vi], mk(vi))).collect()) } else { ItemDef::strukt("X", "", mk(0)) };
    it.vis = "pub".into();
    it
}

fn generic_param_used_in_twin(c: &Case) -> bool {
    c.shape.variants.iter().enumerate().any(|(vi, v)| (0..v.n).any(|fi| tyidx(vi, fi) == 0 && c.marks[vi][fi] != Mark::Ignore))
}

fn build(c: &Case, tier: &str) -> XCase {
    set_raw_field_names(c.raw);
    let r = build_inner(c, tier);
    set_raw_field_names(false);
    r
}

fn build_inner(c: &Case, tier: &str) -> XCase {
    let sh = &c.shape;
    let item = item_of(c);
    let twin = twin_of(c);
    let list = if c.explicit_bound { "Debug(bound(T: ::core::fmt::Debug))" } else { "Debug" };
    let head = match c.entry {
        Entry::Attr => format!("#[derive_ex({list})]"),
        Entry::Derive => format!("#[derive(Ex)]\n#[derive_ex({list})]"),
    };
    let mut s = String::new();
    s.push_str("#[derive(Debug, Clone, Copy)] pub struct Inner { pub a: u8, pub b: Option<i8> }\n");
    let definition = match (c.via_macro, macroize_helper_attrs(&head, &item.print())) {
        (true, Some(m)) => m,
        _ => format!("{head}\n{}", item.print()),
    };
    // the derive_ex'd definition lives alone in a module where a blanket trait offers by-value methods named like the
    // formatter-builder methods (`finish`, `field`, ..): generated code written in method syntax would pick them up
    s.push_str(crate::c13::HOSTILE);
    s.push_str(&format!("pub mod dx {{ use derive_ex::{{derive_ex, Ex}}; use super::Inner; use super::hostile::Hostile as _;\n{definition}\n}}\n"));
    s.push_str(&format!("pub mod tw {{ use super::Inner;\n#[derive(Debug)]\n{}\n}}\n", twin.print()));
    s.push_str("macro_rules! specs { ($e:expr) => { vec![");
    for sp in SPECS {
        s.push_str(&format!("format!({sp:?}, $e), "));
    }
    s.push_str("] } }\n");
    s.push_str("fn cmp(out: &mut String, a: Vec<String>, b: Vec<String>) { for (x, y) in a.iter().zip(b.iter()) { if x == y { out.push('t') } else { out.push_str(&format!(\"f[{}|{}]\", x, y)) } } out.push(';'); }\n");
    let g = if c.by_ref { "<'static, i32>" } else if c.generic { "<i32>" } else { "" };
    s.push_str(&format!("pub fn run() -> String {{\n    let mut out = String::new();\n    let mut dxs: Vec<dx::X{g}> = Vec::new();\n    let mut tws: Vec<Box<dyn ::core::fmt::Debug>> = Vec::new();\n"));
    let mut nvals = 0u64;
    for (vi, v) in sh.variants.iter().enumerate() {
        let combos = 1usize << v.n;
        for m in 0..combos {
            let val = |fi: usize| VALS[tyidx(vi, fi)][(m >> fi) & 1].to_string();
            let args: Vec<String> = (0..v.n).map(|fi| if c.by_ref && tyidx(vi, fi) == 0 { format!("&({})", val(fi)) } else { val(fi) }).collect();
            let path = if sh.is_enum { format!("dx::X::{}", SHAPE_VNAMES[vi]) } else { "dx::X".to_string() };
            let none = |_: usize, _: usize| String::new();
            let noattrs = |_: usize, _: usize| Vec::new();
            let dxe = sh.fields_def(vi, &none, &noattrs).ctor(&path, &args);
            // twin expression
            let tpos = c.marks[vi].iter().position(|k| *k == Mark::Transparent);
            let twe = if let Some(fi) = tpos {
                format!("Box::new({})", if TYS[tyidx(vi, fi)] == "f64" { format!("{}f64", val(fi)) } else if TYS[tyidx(vi, fi)] == "i32" { format!("{}i32", val(fi)) } else { val(fi) })
            } else {
                let kept: Vec<usize> = (0..v.n).filter(|&fi| c.marks[vi][fi] != Mark::Ignore).collect();
                let targs: Vec<String> = kept.iter().map(|&fi| val(fi)).collect();
                let tpath = if sh.is_enum { format!("tw::X::{}", SHAPE_VNAMES[vi]) } else { "tw::X".to_string() };
                let e = match v.kind {
                    SKind::Unit => tpath,
                    SKind::Tuple => format!("{}({})", tpath, targs.join(", ")),
                    SKind::Named => format!("{} {{ {} }}", tpath, kept.iter().zip(targs.iter()).map(|(fi, a)| format!("{}: {a}", fname(*fi))).collect::<Vec<_>>().join(", ")),
                };
                let tg = if c.generic { if generic_param_used_in_twin(c) { "" } else { "" } } else { "" };
                let _ = tg;
                format!("Box::new({e})")
            };
            s.push_str(&format!("    dxs.push({dxe}); tws.push({twe});\n"));
            nvals += 1;
        }
    }
    s.push_str("    for (a, b) in dxs.iter().zip(tws.iter()) { cmp(&mut out, specs!(a), specs!(b)); }\n    out\n}\n");
    let exp: String = (0..nvals).map(|_| format!("{};", "t".repeat(SPECS.len()))).collect();
    let mut atoms = BTreeSet::new();
    atoms.insert(format!("entry={}", c.entry.name()));
    atoms.insert(format!("kind={}", if sh.is_enum { "enum" } else { "struct" }));
    atoms.insert(format!("generic={}", c.generic));
    atoms.insert(format!("by_ref={}", c.by_ref));
    atoms.insert(format!("raw={}", c.raw));
    atoms.insert(format!("via_macro={}", c.via_macro));
    atoms.insert(format!("raw_variants={}", c.raw_variants));
    let nign = c.marks.iter().flatten().filter(|k| **k == Mark::Ignore).count();
    let ntr = c.marks.iter().flatten().filter(|k| **k == Mark::Transparent).count();
    atoms.insert(format!("ignored={nign}"));
    atoms.insert(format!("transparent={ntr}"));
    if c.raw_variants {
        for (from, to) in [("A", "r#fn"), ("B", "r#match"), ("C", "r#loop"), ("D", "r#move"), ("E", "r#ref"), ("F", "r#use")] {
            s = replace_word(&s, from, to);
        }
    }
    XCase {
        text: format!("{} {} {}{}{}", c.entry.name(), list, item.print(), if c.raw_variants { " [variants named r#fn, r#match, ..]" } else { "" }, if c.via_macro { " [generated by macro_rules!, helper attributes as meta fragments]" } else { "" }),
        code: s,
        expected: exp,
        atoms,
        nontrivial: sh.total_fields() >= 1,
        detail: json!({"vector": c.vector, "tier": tier, "entry": c.entry.name(), "item": item.print(), "twin": twin.print()}),
        what: format!("derive_ex(Debug) via {} on `{}`", c.entry.name(), item.print()),
        inner: nvals * SPECS.len() as u64,
        symptom: "debug-output-differs-from-std-twin".into(),
        must_compile: true,
    }
}

pub fn run(ctx: &Ctx, rep: &mut Report) {
    let thorough = ctx.tier.is_thorough();
    rep.rule = "terminal state = (struct/enum shape, per-field mark in {plain, debug(ignore), debug(transparent)} with a bounded number of marked fields, generic or not, entry point); inner enumeration = every value of the 2-valued per-field domains x 14 format specs (alternate, width, fill/alignment, sign, zero-pad, precision, hex); distinct by program text; non-trivial = at least one field".into();
    rep.assumptions = vec!["oracle: a twin type of the same name with #[derive(Debug)] and the ignored fields deleted must print byte-identically; a transparent field prints as the field alone under the same formatter; two transparent fields in one struct/variant must be rejected by the expander".into()];
    let mut cases = Vec::new();
    if let Some(p) = &ctx.replay {
        let v: serde_json::Value = serde_json::from_str(&std::fs::read_to_string(p).expect("replay file")).expect("replay json");
        let vec: Vec<usize> = v["case"]["vector"].as_array().unwrap().iter().map(|x| x.as_u64().unwrap() as usize).collect();
        let th = v["case"]["tier"] == "thorough";
        cases.push(replay(|ch| gen(ch, th), &vec).unwrap_or_else(|| crate::report::machinery("replayed vector is pruned")));
    } else {
        let st = explore(|ch| gen(ch, thorough), |_, c| cases.push(c));
        rep.stats.add(&st);
    }
    // rejection half on channel E
    let mut x: Vec<XCase> = Vec::new();
    for c in &cases {
        if two_transparent(c) {
            let item = item_of(c).print();
            let r = expand::expand_aligned(c.entry, "Debug", &item, &["Debug".to_string()]);
            let rejected = match &r {
                Ok((_, Aligned::PerTrait(s))) => s[0].is_error(),
                Ok((_, Aligned::Whole(_))) => true,
                Err(_) => false,
            };
            rep.case(&format!("{} {}", c.entry.name(), item), true);
            rep.outcome(if rejected { "two-transparent:rejected" } else { "two-transparent:accepted" });
            if !rejected {
                let mut atoms = BTreeSet::new();
                atoms.insert("transparent=2".to_string());
                atoms.insert(format!("entry={}", c.entry.name()));
                rep.violation(Violation { symptom: "two-transparent-fields-accepted".into(), atoms, what: format!("`{item}` is not rejected although two fields of one struct/variant are #[debug(transparent)]"), detail: json!({"vector": c.vector, "tier": ctx.tier.name(), "entry": c.entry.name(), "item": item}), standalone: None });
            }
        } else {
            x.push(build(c, ctx.tier.name()));
        }
    }
    if ctx.replay.is_none() {
        // explicit bounds next to `ignore` in ONE attribute, and a stopping variant-level bound on an EARLIER variant
        for entry in Entry::BOTH {
            let head = match entry {
                Entry::Attr => "#[derive_ex(Debug)]".to_string(),
                Entry::Derive => "#[derive(Ex)]\n#[derive_ex(Debug)]".to_string(),
            };
            let defs = format!("pub struct NoDebug;\n{head}\npub struct X<T> {{ pub a: u8, #[debug(ignore, bound())] pub b: T, pub c: u8 }}\n{head}\npub enum Y<T> {{ A(u8, #[debug(bound(T: ::core::marker::Copy), ignore)] T), B }}\n{head}\npub enum Z<T, U> {{ #[debug(bound())] A(#[debug(ignore)] T), B(Vec<U>), C {{ u: U }} }}");
            let code = format!("use derive_ex::{{derive_ex, Ex}};\n{defs}\npub fn run() -> String {{ format!(\"{{:?}}|{{:?}}|{{:?}}|{{:?}}|{{:?}}\", X {{ a: 1, b: NoDebug, c: 3 }}, Y::A(1, NoDebug), Z::<NoDebug, u8>::A(NoDebug), Z::<NoDebug, u8>::B(vec![1]), Z::<NoDebug, u8>::C {{ u: 2 }}) }}\n");
            let mut atoms = BTreeSet::new();
            atoms.insert(format!("entry={}", entry.name()));
            atoms.insert("kind=ignore-next-to-a-bound".to_string());
            x.push(XCase { text: format!("{} {defs}", entry.name()), code, expected: "X { a: 1, c: 3 }|A(1)|A|B([1])|C { u: 2 }".into(), atoms, nontrivial: true, detail: json!({"kind": "ignore-next-to-a-bound", "entry": entry.name(), "item": defs}), what: format!("derive_ex(Debug) via {}: ignore and bound(..) in one attribute; a stopping bound on an earlier variant", entry.name()), inner: 5, symptom: "debug-output-differs-from-std-twin".into(), must_compile: true });
        }
        // enums without variants have no value to print, but the impl must compile and be usable through Option<X>
        for (gen, inst) in [("", ""), ("<T: ::core::marker::Copy>", "<u8>")] {
            for entry in Entry::BOTH {
                let head = match entry {
                    Entry::Attr => "#[derive_ex(Debug)]".to_string(),
                    Entry::Derive => "#[derive(Ex)]\n#[derive_ex(Debug)]".to_string(),
                };
                let item = if gen.is_empty() { "pub enum X {}".to_string() } else { format!("pub enum X{gen} {{ #[doc(hidden)] __Never(::core::convert::Infallible, ::core::marker::PhantomData<T>) }}") };
                let code = format!("use derive_ex::{{derive_ex, Ex}};\n{head}\n{item}\npub fn run() -> String {{ format!(\"{{:?}}\", ::core::option::Option::<X{inst}>::None) }}\n");
                let mut atoms = BTreeSet::new();
                atoms.insert(format!("entry={}", entry.name()));
                atoms.insert("kind=empty-enum".to_string());
                x.push(XCase { text: format!("{} Debug {item}", entry.name()), code, expected: "None".into(), atoms, nontrivial: true, detail: json!({"kind": "empty-enum", "entry": entry.name(), "item": item}), what: format!("derive_ex(Debug) via {} on `{item}`", entry.name()), inner: 1, symptom: "debug-output-differs-from-std-twin".into(), must_compile: true });
            }
        }
    }
    run_and_compare(rep, "c10", &x);
}
