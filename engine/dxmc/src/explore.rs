//! The explorer: stateless depth-first enumeration of a choice tree (DESIGN.md 1.2).
//!
//! A generator is a closure that builds one complete derive-ex input by asking the `Ch`
//! for the option of each *slot* in turn (`pick(n)`); the explorer re-runs the closure for
//! every choice vector in odometer (simplest-first) order.  A terminal state is identified
//! by its choice vector, which is what replay files store.  `states` counts the nodes of
//! the choice tree (partial inputs included), `transitions` its edges.

#[derive(Default, Clone, Debug)]
pub struct Stats {
    pub states: u64,
    pub transitions: u64,
    pub terminals: u64,
    pub pruned: u64,
}

impl Stats {
    pub fn add(&mut self, o: &Stats) {
        self.states += o.states;
        self.transitions += o.transitions;
        self.terminals += o.terminals;
        self.pruned += o.pruned;
    }
}

pub struct Ch {
    prefix: Vec<usize>,
    pos: usize,
    pub trace: Vec<(usize, usize)>,
    /// number of slots that departed from option 0 (the default) so far
    pub deviations: usize,
}

impl Ch {
    fn new(prefix: Vec<usize>) -> Self {
        Ch { prefix, pos: 0, trace: Vec::new(), deviations: 0 }
    }
    /// Choose one of `n` options (0 = default / simplest).
    pub fn pick(&mut self, n: usize) -> usize {
        assert!(n >= 1, "empty menu");
        let c = if self.pos < self.prefix.len() { self.prefix[self.pos] } else { 0 };
        assert!(c < n, "replayed choice {} out of range {} at slot {}", c, n, self.pos);
        self.pos += 1;
        self.trace.push((c, n));
        if c != 0 {
            self.deviations += 1;
        }
        c
    }
    pub fn flag(&mut self) -> bool {
        self.pick(2) == 1
    }
    pub fn of<'a, T>(&mut self, xs: &'a [T]) -> &'a T {
        &xs[self.pick(xs.len())]
    }
    pub fn vector(&self) -> Vec<usize> {
        self.trace.iter().map(|x| x.0).collect()
    }
}

/// Enumerate every choice vector of `f`.  `f` returns `None` to prune the (partial) state.
pub fn explore<T>(mut f: impl FnMut(&mut Ch) -> Option<T>, mut sink: impl FnMut(Vec<usize>, T)) -> Stats {
    let mut st = Stats { states: 1, ..Default::default() };
    let mut prefix: Vec<usize> = Vec::new();
    let mut shared = 0usize; // edges shared with the previous run
    loop {
        let mut ch = Ch::new(prefix.clone());
        let r = f(&mut ch);
        assert!(ch.pos >= prefix.len(), "generator consumed fewer choices than the prefix: nondeterministic generator");
        let new_edges = (ch.trace.len() - shared.min(ch.trace.len())) as u64;
        st.transitions += new_edges;
        st.states += new_edges;
        match r {
            Some(t) => {
                st.terminals += 1;
                sink(ch.vector(), t);
            }
            None => st.pruned += 1,
        }
        // odometer increment
        let mut i = ch.trace.len();
        loop {
            if i == 0 {
                return st;
            }
            i -= 1;
            if ch.trace[i].0 + 1 < ch.trace[i].1 {
                break;
            }
        }
        prefix = ch.trace[..i].iter().map(|x| x.0).collect();
        prefix.push(ch.trace[i].0 + 1);
        shared = i;
    }
}

/// Re-run the generator on one recorded choice vector (replay).
pub fn replay<T>(mut f: impl FnMut(&mut Ch) -> Option<T>, vector: &[usize]) -> Option<T> {
    let mut ch = Ch::new(vector.to_vec());
    let r = f(&mut ch);
    assert_eq!(ch.trace.len(), vector.len(), "replay diverged: generator made {} choices, vector has {}", ch.trace.len(), vector.len());
    r
}

/// Run `work` over `items` on `threads` OS threads, preserving order of results.
pub fn par_map<I: Sync, O: Send>(items: &[I], threads: usize, work: impl Fn(usize, &I) -> O + Sync) -> Vec<O> {
    use std::sync::atomic::{AtomicUsize, Ordering};
    let next = AtomicUsize::new(0);
    let n = items.len();
    let mut out: Vec<Option<O>> = (0..n).map(|_| None).collect();
    let out_ptr = std::sync::Mutex::new(&mut out);
    std::thread::scope(|s| {
        for _ in 0..threads.max(1).min(n.max(1)) {
            s.spawn(|| {
                let mut local: Vec<(usize, O)> = Vec::new();
                loop {
                    let i = next.fetch_add(1, Ordering::Relaxed);
                    if i >= n {
                        break;
                    }
                    local.push((i, work(i, &items[i])));
                    if local.len() >= 256 {
                        let mut g = out_ptr.lock().unwrap();
                        for (i, o) in local.drain(..) {
                            g[i] = Some(o);
                        }
                    }
                }
                let mut g = out_ptr.lock().unwrap();
                for (i, o) in local.drain(..) {
                    g[i] = Some(o);
                }
            });
        }
    });
    out.into_iter().map(|o| o.expect("par_map slot")).collect()
}

pub fn threads() -> usize {
    std::env::var("DX_THREADS").ok().and_then(|s| s.parse().ok()).unwrap_or_else(|| {
        std::thread::available_parallelism().map(|n| n.get()).unwrap_or(8)
    })
}
