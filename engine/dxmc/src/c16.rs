//! C16 — expansion is total and deterministic.
//! Channel E; breadth-first search over structure-aware mutations of the seed corpus with
//! a seen-set keyed by the canonical token text (DESIGN.md 5/C16).

use crate::expand::{self, flat_str, lex, Entry, OutItem};
use crate::explore::{par_map, threads};
use crate::report::{Report, Violation};
use crate::seeds::{all_seeds, split_commas};
use crate::Ctx;
use proc_macro2::TokenStream;
use quote::ToTokens;
use serde_json::json;
use std::collections::BTreeSet;
use std::sync::atomic::{AtomicU64, Ordering};
use std::sync::Mutex;

#[derive(Clone, Debug)]
pub struct State {
    pub entry: Entry,
    pub attr: String,
    pub item: String,
    pub depth: u8,
    pub via: String,
}

fn key(s: &State) -> (u64, u64) {
    use std::hash::{Hash, Hasher};
    let text = format!("{:?}|{}|{}", s.entry, lex(&s.attr).map(flat_str).unwrap_or_else(|_| s.attr.clone()), lex(&s.item).map(flat_str).unwrap_or_else(|_| s.item.clone()));
    let mut h1 = std::collections::hash_map::DefaultHasher::new();
    text.hash(&mut h1);
    let mut h2 = std::collections::hash_map::DefaultHasher::new();
    (text.len() as u64, &text, 0x9e3779b97f4a7c15u64).hash(&mut h2);
    (h1.finish(), h2.finish())
}

const POOL: [&str; 21] = ["bound()", "dump", "ignore", "key = $", "by = f", "Foo", "\"lit\"", "reverse", "transparent", "bound(..)", "Clone", "bound(T: , ..)", "Cálculo", "ÑuAssign", "Sub", "key = $!()", "key = $::f()", "key = $ { }", "key = match 1 { $ => 1 }", "key = Vec::<$>::new()", "key = { let $ = 1; 2 }"];
/// syntactically valid types put in place of a field type, an impl's self type or the operator's Rhs argument
const TYPE_POOL: [&str; 19] = ["dyn Tr + Send", "dyn Tr", "[u8]", "(u8, X)", "&'a mut T", "fn(u8) -> u8", "*const T", "<T as Tr>::A", "Self", "!", "[T; N]", "Option<Self>", "&dyn Tr", "Box<dyn Tr + Send>", "m!(T)", "(dyn Tr + Send)", "dyn Tr + 'static", "dyn for<'x> Fx<'x> + 'a", "impl Tr + Send"];
const HELPERS: [&str; 8] = ["derive_ex", "debug", "default", "ord", "partial_ord", "eq", "partial_eq", "hash"];

/// delete / duplicate / swap-adjacent / replace / append on a comma separated argument list
fn arg_mutations(args: TokenStream) -> Vec<(String, String)> {
    let ps: Vec<String> = split_commas(args).into_iter().map(|p| p.to_string()).collect();
    let mut out = Vec::new();
    let join = |v: &Vec<String>| v.join(", ");
    for i in 0..ps.len() {
        let mut v = ps.clone();
        v.remove(i);
        out.push((format!("delete-arg{i}"), join(&v)));
        let mut v = ps.clone();
        v.insert(i, ps[i].clone());
        out.push((format!("duplicate-arg{i}"), join(&v)));
        if i + 1 < ps.len() {
            let mut v = ps.clone();
            v.swap(i, i + 1);
            out.push((format!("swap-arg{i}"), join(&v)));
        }
        for p in POOL {
            let mut v = ps.clone();
            v[i] = p.to_string();
            out.push((format!("replace-arg{i}-by-{p}"), join(&v)));
        }
        // descend one level: `T(args)` / `bound(args)`
        if let Ok(ts) = lex(&ps[i]) {
            let toks: Vec<proc_macro2::TokenTree> = ts.into_iter().collect();
            if let [proc_macro2::TokenTree::Ident(id), proc_macro2::TokenTree::Group(g)] = toks.as_slice() {
                let inner: Vec<String> = split_commas(g.stream()).into_iter().map(|p| p.to_string()).collect();
                for k in 0..inner.len() {
                    let mut w = inner.clone();
                    w.remove(k);
                    let mut v = ps.clone();
                    v[i] = format!("{id}({})", w.join(", "));
                    out.push((format!("delete-inner-arg{i}.{k}"), join(&v)));
                    let mut w = inner.clone();
                    w.insert(k, inner[k].clone());
                    let mut v = ps.clone();
                    v[i] = format!("{id}({})", w.join(", "));
                    out.push((format!("duplicate-inner-arg{i}.{k}"), join(&v)));
                }
                for p in ["dump", "..", "bound()", "ignore"] {
                    let mut w = inner.clone();
                    w.push(p.to_string());
                    let mut v = ps.clone();
                    v[i] = format!("{id}({})", w.join(", "));
                    out.push((format!("append-inner-arg{i}-{p}"), join(&v)));
                }
            }
        }
    }
    for p in POOL {
        let mut v = ps.clone();
        v.push(p.to_string());
        out.push((format!("append-arg-{p}"), join(&v)));
    }
    out
}

fn attr_site_mutations(attrs: &[syn::Attribute]) -> Vec<(String, Vec<syn::Attribute>)> {
    let mut out = Vec::new();
    for i in 0..attrs.len() {
        let mut v = attrs.to_vec();
        v.remove(i);
        out.push((format!("delete-attr{i}"), v));
        let mut v = attrs.to_vec();
        v.insert(i, attrs[i].clone());
        out.push((format!("duplicate-attr{i}"), v));
        if i + 1 < attrs.len() {
            let mut v = attrs.to_vec();
            v.swap(i, i + 1);
            out.push((format!("swap-attr{i}"), v));
        }
        // argument-level mutations of derive_ex / helper attributes
        let is_helper = attrs[i].path().get_ident().map(|id| HELPERS.contains(&id.to_string().as_str())).unwrap_or(false);
        if is_helper {
            let path = attrs[i].path().clone();
            match &attrs[i].meta {
                syn::Meta::List(l) => {
                    for (name, args) in arg_mutations(l.tokens.clone()) {
                        if let Ok(ts) = lex(&args) {
                            let mut v = attrs.to_vec();
                            v[i] = syn::parse_quote!(#[#path(#ts)]);
                            out.push((format!("attr{i}:{name}"), v));
                        }
                    }
                    let mut v = attrs.to_vec();
                    v[i] = syn::parse_quote!(#[#path]);
                    out.push((format!("attr{i}:to-path"), v));
                    let mut v = attrs.to_vec();
                    v[i] = syn::parse_quote!(#[#path = "x"]);
                    out.push((format!("attr{i}:to-name-value"), v));
                }
                syn::Meta::Path(_) => {
                    for p in POOL {
                        if let Ok(ts) = lex(p) {
                            let mut v = attrs.to_vec();
                            v[i] = syn::parse_quote!(#[#path(#ts)]);
                            out.push((format!("attr{i}:add-arg-{p}"), v));
                        }
                    }
                }
                _ => {}
            }
        }
    }
    // a foreign attribute in front (path attributes have no single-identifier name)
    for (k, f) in ["#[rustfmt::skip]", "#[a::b(c)]", "#[doc = \" d\"]"].iter().enumerate() {
        if let Ok(ts) = lex(f) {
            if let Ok(mut parsed) = syn::parse::Parser::parse2(syn::Attribute::parse_outer, ts) {
                let mut v = attrs.to_vec();
                v.insert(0, parsed.remove(0));
                out.push((format!("insert-foreign-attr{k}"), v));
            }
        }
    }
    out
}

fn punct_mutations<T: Clone, P: Default>(p: &syn::punctuated::Punctuated<T, P>) -> Vec<(String, syn::punctuated::Punctuated<T, P>)> {
    let items: Vec<T> = p.iter().cloned().collect();
    let mut out = Vec::new();
    let build = |v: Vec<T>| -> syn::punctuated::Punctuated<T, P> { v.into_iter().collect() };
    for i in 0..items.len() {
        let mut v = items.clone();
        v.remove(i);
        out.push((format!("delete{i}"), build(v)));
        let mut v = items.clone();
        v.insert(i, items[i].clone());
        out.push((format!("duplicate{i}"), build(v)));
        if i + 1 < items.len() {
            let mut v = items.clone();
            v.swap(i, i + 1);
            out.push((format!("swap{i}"), build(v)));
        }
    }
    out
}

fn fields_mutations(f: &syn::Fields) -> Vec<(String, syn::Fields)> {
    let mut out = Vec::new();
    match f {
        syn::Fields::Named(n) => {
            for (name, p) in punct_mutations(&n.named) {
                let mut x = n.clone();
                x.named = p;
                out.push((format!("field-{name}"), syn::Fields::Named(x)));
            }
            for (i, fl) in n.named.iter().enumerate() {
                for (name, a) in attr_site_mutations(&fl.attrs) {
                    let mut x = n.clone();
                    x.named[i].attrs = a;
                    out.push((format!("field{i}:{name}"), syn::Fields::Named(x)));
                }
            }
        }
        syn::Fields::Unnamed(n) => {
            for (name, p) in punct_mutations(&n.unnamed) {
                let mut x = n.clone();
                x.unnamed = p;
                out.push((format!("field-{name}"), syn::Fields::Unnamed(x)));
            }
            for (i, fl) in n.unnamed.iter().enumerate() {
                for (name, a) in attr_site_mutations(&fl.attrs) {
                    let mut x = n.clone();
                    x.unnamed[i].attrs = a;
                    out.push((format!("field{i}:{name}"), syn::Fields::Unnamed(x)));
                }
            }
        }
        syn::Fields::Unit => {}
    }
    out
}

fn generics_mutations(g: &syn::Generics) -> Vec<(String, syn::Generics)> {
    let mut out = Vec::new();
    for (name, p) in punct_mutations(&g.params) {
        let mut x = g.clone();
        x.params = p;
        if x.params.is_empty() {
            x.lt_token = None;
            x.gt_token = None;
        }
        out.push((format!("generic-{name}"), x));
    }
    if g.where_clause.is_some() {
        let mut x = g.clone();
        x.where_clause = None;
        out.push(("delete-where".into(), x));
    }
    if !g.params.is_empty() {
        out.push(("delete-generics".into(), syn::Generics::default()));
    }
    // whole parameter lists / where-clauses from pools of valid but unusual forms
    for t in GENERICS_POOL {
        if let Ok(ng) = syn::parse_str::<syn::Generics>(t) {
            let mut x = g.clone();
            x.lt_token = ng.lt_token;
            x.gt_token = ng.gt_token;
            x.params = ng.params;
            out.push((format!("generics-{t}"), x));
        }
    }
    for t in WHERE_POOL {
        if let Ok(w) = syn::parse_str::<syn::WhereClause>(t) {
            let mut x = g.clone();
            x.where_clause = Some(w);
            out.push((format!("where-{t}"), x));
        }
    }
    out
}

const GENERICS_POOL: [&str; 6] = ["<T = u8, const N: usize = 1>", "<'a, 'b: 'a, T>", "<#[cfg(all())] 'a, T>", "<T: ?Sized + Tr<'static>, const N: usize = 3>", "<'a, T: 'a + for<'x> Tr<'x>>", "<'a: 'static, 'b: 'a + 'static, const N: usize>"];
const WHERE_POOL: [&str; 4] = ["where for<'x> Self: Tr<'x>", "where T: Tr, Self: Sized", "where for<'x> &'x Self: Tr<'x>, [u8; 2]: Sized", "where 'a: 'static, T: 'a"];

const OTHER_ITEMS: [&str; 8] = ["fn f() {}", "trait Tr {}", "union U { a: u8, b: u16 }", "mod m {}", "const C: u8 = 0;", "type A = u8;", "static S: u8 = 0;", "impl X { fn f(&self) {} }"];

/// all single applications of the mutation operators
pub fn mutations(s: &State) -> Vec<State> {
    let mut out: Vec<State> = Vec::new();
    let mut push = |via: String, entry: Entry, attr: String, item: String| out.push(State { entry, attr, item, depth: s.depth + 1, via });
    // macro argument list
    if s.entry == Entry::Attr {
        if let Ok(ts) = lex(&s.attr) {
            for (name, a) in arg_mutations(ts) {
                push(format!("macro-args:{name}"), s.entry, a, s.item.clone());
            }
        }
        // feed as derive input instead
        push("as-derive-input".into(), Entry::Derive, String::new(), format!("#[derive_ex({})] {}", s.attr, s.item));
        push("empty-args".into(), Entry::Attr, String::new(), s.item.clone());
    } else {
        push("as-attribute-input".into(), Entry::Attr, "Clone".into(), s.item.clone());
    }
    for o in OTHER_ITEMS {
        push(format!("unsupported-item:{o}"), s.entry, s.attr.clone(), (*o).to_string());
    }
    if let Ok(item) = syn::parse_str::<syn::Item>(&s.item) {
        // renaming to raw identifiers / names the expansion itself uses
        for name in ["r#type", "r#fn", "f", "state", "H", "other", "__x", "ñandú", "__placeholder"] {
            let id = match syn::parse_str::<syn::Ident>(name) {
                Ok(i) => i,
                Err(_) => continue,
            };
            match &item {
                syn::Item::Struct(st) => {
                    let mut x = st.clone();
                    x.ident = id.clone();
                    push(format!("rename-type-{name}"), s.entry, s.attr.clone(), x.to_token_stream().to_string());
                    for i in 0..st.fields.len() {
                        let mut x = st.clone();
                        if let Some(f) = x.fields.iter_mut().nth(i) {
                            if f.ident.is_some() {
                                f.ident = Some(id.clone());
                                push(format!("rename-field{i}-{name}"), s.entry, s.attr.clone(), x.to_token_stream().to_string());
                            }
                        }
                    }
                    if let Some(syn::GenericParam::Type(_)) = st.generics.params.first() {
                        let mut x = st.clone();
                        if let Some(syn::GenericParam::Type(tp)) = x.generics.params.first_mut() {
                            tp.ident = id.clone();
                        }
                        push(format!("rename-param-{name}"), s.entry, s.attr.clone(), x.to_token_stream().to_string());
                    }
                }
                syn::Item::Enum(en) => {
                    let mut x = en.clone();
                    x.ident = id.clone();
                    push(format!("rename-type-{name}"), s.entry, s.attr.clone(), x.to_token_stream().to_string());
                    for vi in 0..en.variants.len() {
                        let mut x = en.clone();
                        x.variants[vi].ident = id.clone();
                        push(format!("rename-variant{vi}-{name}"), s.entry, s.attr.clone(), x.to_token_stream().to_string());
                        for i in 0..en.variants[vi].fields.len() {
                            let mut x = en.clone();
                            if let Some(f) = x.variants[vi].fields.iter_mut().nth(i) {
                                if f.ident.is_some() {
                                    f.ident = Some(id.clone());
                                    push(format!("rename-variant{vi}-field{i}-{name}"), s.entry, s.attr.clone(), x.to_token_stream().to_string());
                                }
                            }
                        }
                    }
                    if let Some(syn::GenericParam::Type(_)) = en.generics.params.first() {
                        let mut x = en.clone();
                        if let Some(syn::GenericParam::Type(tp)) = x.generics.params.first_mut() {
                            tp.ident = id.clone();
                        }
                        push(format!("rename-param-{name}"), s.entry, s.attr.clone(), x.to_token_stream().to_string());
                    }
                }
                _ => {}
            }
        }
        match item {
            syn::Item::Struct(st) => {
                for (name, a) in attr_site_mutations(&st.attrs) {
                    let mut x = st.clone();
                    x.attrs = a;
                    push(format!("type:{name}"), s.entry, s.attr.clone(), x.to_token_stream().to_string());
                }
                for (name, f) in fields_mutations(&st.fields) {
                    let mut x = st.clone();
                    x.fields = f;
                    if matches!(x.fields, syn::Fields::Named(_)) {
                        x.semi_token = None;
                    }
                    push(name, s.entry, s.attr.clone(), x.to_token_stream().to_string());
                }
                for (name, g) in generics_mutations(&st.generics) {
                    let mut x = st.clone();
                    x.generics = g;
                    push(name, s.entry, s.attr.clone(), x.to_token_stream().to_string());
                }
                for i in 0..st.fields.len() {
                    for t in TYPE_POOL {
                        let mut x = st.clone();
                        if let (Some(f), Ok(ty)) = (x.fields.iter_mut().nth(i), syn::parse_str::<syn::Type>(t)) {
                            f.ty = ty;
                            push(format!("field{i}:type-{t}"), s.entry, s.attr.clone(), x.to_token_stream().to_string());
                        }
                    }
                }
            }
            syn::Item::Enum(en) => {
                for (name, a) in attr_site_mutations(&en.attrs) {
                    let mut x = en.clone();
                    x.attrs = a;
                    push(format!("type:{name}"), s.entry, s.attr.clone(), x.to_token_stream().to_string());
                }
                for (name, p) in punct_mutations(&en.variants) {
                    let mut x = en.clone();
                    x.variants = p;
                    push(format!("variant-{name}"), s.entry, s.attr.clone(), x.to_token_stream().to_string());
                }
                for (vi, v) in en.variants.iter().enumerate() {
                    for (name, a) in attr_site_mutations(&v.attrs) {
                        let mut x = en.clone();
                        x.variants[vi].attrs = a;
                        push(format!("variant{vi}:{name}"), s.entry, s.attr.clone(), x.to_token_stream().to_string());
                    }
                    for (name, f) in fields_mutations(&v.fields) {
                        let mut x = en.clone();
                        x.variants[vi].fields = f;
                        push(format!("variant{vi}:{name}"), s.entry, s.attr.clone(), x.to_token_stream().to_string());
                    }
                }
                for (name, g) in generics_mutations(&en.generics) {
                    let mut x = en.clone();
                    x.generics = g;
                    push(name, s.entry, s.attr.clone(), x.to_token_stream().to_string());
                }
                for vi in 0..en.variants.len() {
                    for i in 0..en.variants[vi].fields.len() {
                        for t in TYPE_POOL {
                            let mut x = en.clone();
                            if let (Some(f), Ok(ty)) = (x.variants[vi].fields.iter_mut().nth(i), syn::parse_str::<syn::Type>(t)) {
                                f.ty = ty;
                                push(format!("variant{vi}:field{i}:type-{t}"), s.entry, s.attr.clone(), x.to_token_stream().to_string());
                            }
                        }
                    }
                }
            }
            syn::Item::Impl(im) => {
                for (name, a) in attr_site_mutations(&im.attrs) {
                    let mut x = im.clone();
                    x.attrs = a;
                    push(format!("impl:{name}"), s.entry, s.attr.clone(), x.to_token_stream().to_string());
                }
                for (name, g) in generics_mutations(&im.generics) {
                    let mut x = im.clone();
                    x.generics = g;
                    push(name, s.entry, s.attr.clone(), x.to_token_stream().to_string());
                }
                // delete items of the impl (e.g. `type Output`), drop the trait, negate it
                for i in 0..im.items.len() {
                    let mut x = im.clone();
                    x.items.remove(i);
                    push(format!("impl:delete-item{i}"), s.entry, s.attr.clone(), x.to_token_stream().to_string());
                }
                for t in TYPE_POOL {
                    if let Ok(ty) = syn::parse_str::<syn::Type>(t) {
                        let mut x = im.clone();
                        x.self_ty = Box::new(ty.clone());
                        push(format!("impl:self-type-{t}"), s.entry, s.attr.clone(), x.to_token_stream().to_string());
                        // the operator's Rhs argument
                        let mut x = im.clone();
                        if let Some((_, p, _)) = &mut x.trait_ {
                            if let Some(seg) = p.segments.last_mut() {
                                seg.arguments = syn::PathArguments::AngleBracketed(syn::parse_quote!(<#ty>));
                                push(format!("impl:rhs-{t}"), s.entry, s.attr.clone(), x.to_token_stream().to_string());
                            }
                        }
                    }
                }
                let mut x = im.clone();
                x.trait_ = None;
                push("impl:inherent".into(), s.entry, s.attr.clone(), x.to_token_stream().to_string());
                if let Some((_, p, f)) = &im.trait_ {
                    let mut x = im.clone();
                    x.trait_ = Some((Some(Default::default()), p.clone(), *f));
                    push("impl:negative".into(), s.entry, s.attr.clone(), x.to_token_stream().to_string());
                    for t in ["Foo", "::core::ops::AddAssign", "::core::ops::Add<u8, u8>", "::core::ops::Sub<&'static X>", "Neg", "::core::ops::Add<>", "Add<>", "Cálculo", "ÑuAssign<X>", "::core::ops::Add<'static>", "::core::ops::Add<{ 1 }>"] {
                        let mut x = im.clone();
                        if let Ok(np) = syn::parse_str::<syn::Path>(t) {
                            x.trait_ = Some((None, np, *f));
                            push(format!("impl:trait-{t}"), s.entry, s.attr.clone(), x.to_token_stream().to_string());
                        }
                    }
                }
            }
            _ => {}
        }
    }
    out
}

#[derive(Debug)]
pub enum Verdict {
    Ok { errors: usize, items: usize },
    Bad(String, String),
}

pub fn judge(s: &State) -> Verdict {
    let v = judge_plain(s);
    if let Verdict::Ok { .. } = v {
        // once more with the item as a `macro_rules!` expansion would deliver it: invisible groups around simple type
        // names and `by = ..` values (totality and well-formedness only; the verdict of the plain run is kept)
        expand::set_fragments(true);
        let f = judge_plain(s);
        expand::set_fragments(false);
        if let Verdict::Bad(sym, what) = f {
            return Verdict::Bad(format!("{sym}-with-fragment-groups"), what);
        }
    }
    v
}

fn has_duplicate_params(g: &syn::Generics) -> bool {
    let mut seen = std::collections::BTreeSet::new();
    g.params.iter().any(|p| {
        let n = match p {
            syn::GenericParam::Type(t) => t.ident.to_string(),
            syn::GenericParam::Const(c) => c.ident.to_string(),
            syn::GenericParam::Lifetime(l) => format!("'{}", l.lifetime.ident),
        };
        !seen.insert(n)
    })
}

fn judge_plain(s: &State) -> Verdict {
    let run = || match s.entry {
        Entry::Attr => expand::expand_attr(&s.attr, &s.item),
        Entry::Derive => expand::expand_derive(&s.item),
    };
    let a = run();
    let b = run();
    match (a, b) {
        (Err(e), _) | (_, Err(e)) => {
            if e.starts_with("lex error") {
                return Verdict::Ok { errors: 0, items: 0 }; // not a syntactically valid input
            }
            Verdict::Bad("panic".into(), e)
        }
        (Ok(a), Ok(b)) => {
            let (sa, sb) = (a.to_string(), b.to_string());
            if sa != sb {
                return Verdict::Bad("nondeterministic-output".into(), "two expansions of the same input differ".into());
            }
            match expand::parse_output(a, false) {
                Err(e) => Verdict::Bad("output-not-well-formed".into(), e),
                Ok(items) => {
                    let mut errors = 0;
                    let input_is_impl = matches!(syn::parse_str::<syn::Item>(&s.item), Ok(syn::Item::Impl(_)));
                    let input_has_duplicate_params = syn::parse_str::<syn::Item>(&s.item).ok().map(|it| match &it { syn::Item::Struct(x) => has_duplicate_params(&x.generics), syn::Item::Enum(x) => has_duplicate_params(&x.generics), syn::Item::Impl(x) => has_duplicate_params(&x.generics), _ => false }).unwrap_or(true);
                    for it in &items {
                        match it {
                            OutItem::Error(m) => {
                                errors += 1;
                                if m.trim().is_empty() {
                                    return Verdict::Bad("compile-error-without-message".into(), "empty message".into());
                                }
                            }
                            OutItem::Other(syn::Item::Macro(m)) => return Verdict::Bad("unexpected-macro-item".into(), m.to_token_stream().to_string()),
                            OutItem::Other(syn::Item::Verbatim(v)) => return Verdict::Bad("output-not-well-formed".into(), format!("verbatim item: {v}")),
                            // what rustc's AST validation rejects although the tokens parse: defaults on the parameters of an impl
                            // (only for struct / enum inputs: on a user impl whose own parameters carry defaults the input is at fault)
                            OutItem::Impl { item, .. } if !input_is_impl && item.generics.params.iter().any(|p| match p {
                                syn::GenericParam::Type(t) => t.default.is_some() || t.eq_token.is_some(),
                                syn::GenericParam::Const(c) => c.default.is_some() || c.eq_token.is_some(),
                                syn::GenericParam::Lifetime(_) => false,
                            }) => return Verdict::Bad("output-not-well-formed".into(), format!("generic parameter defaults on a generated impl: impl{}", item.generics.to_token_stream())),
                            // likewise: the same name twice among the parameters of a generated impl (unless the input's own
                            // parameter list already has the duplicate)
                            OutItem::Impl { item, .. } if !input_has_duplicate_params && has_duplicate_params(&item.generics) => return Verdict::Bad("output-not-well-formed".into(), format!("a generic parameter name is used twice on a generated impl: impl{}", item.generics.to_token_stream())),
                            _ => {}
                        }
                    }
                    Verdict::Ok { errors, items: items.len() }
                }
            }
        }
    }
}

fn inflight_dir() -> Option<std::path::PathBuf> {
    std::env::var("DX_C16_INFLIGHT").ok().map(std::path::PathBuf::from)
}

/// The expander runs inside this process: an expansion that overflows the stack or aborts takes the explorer
/// with it. `supervise` therefore runs the exploration in a child process; if the child dies abnormally, each
/// state that was in progress is re-judged alone in a process of its own, and the ones that die again are
/// reported as violations (`expansion-crashes-the-process`) with a replay file.
pub fn supervise(args: &[String], tier: crate::report::Tier, replay: Option<&String>) -> ! {
    use std::process::Command;
    let exe = std::env::current_exe().unwrap_or_else(|e| crate::report::machinery(&format!("current_exe: {e}")));
    let dir = crate::report::work().join(format!("c16-inflight-{}", std::process::id()));
    let _ = std::fs::remove_dir_all(&dir);
    std::fs::create_dir_all(&dir).unwrap_or_else(|e| crate::report::machinery(&format!("cannot create {}: {e}", dir.display())));
    let st = Command::new(&exe).args(args).env("DX_C16_WORKER", "1").env("DX_C16_INFLIGHT", &dir).status().unwrap_or_else(|e| crate::report::machinery(&format!("cannot start the C16 worker: {e}")));
    if let Some(c) = st.code() {
        if (0..=2).contains(&c) {
            let _ = std::fs::remove_dir_all(&dir);
            std::process::exit(c);
        }
    }
    // abnormal end: which state did it?
    let mut rep = Report::new("C16", tier);
    rep.replay_mode = replay.is_some();
    rep.rule = "supervisor: the exploring process ended abnormally; every state that was in progress was re-judged in a process of its own".into();
    let mut candidates: Vec<std::path::PathBuf> = std::fs::read_dir(&dir).map(|d| d.filter_map(|e| e.ok().map(|e| e.path())).collect()).unwrap_or_default();
    candidates.sort();
    // keep the current record of each worker only
    for f in &candidates {
        if let Ok(t) = std::fs::read_to_string(f) {
            let _ = std::fs::write(f, t.lines().next().unwrap_or(""));
        }
    }
    if let Some(r) = replay {
        candidates = vec![std::path::PathBuf::from(r)];
    }
    let mut culprits = 0;
    for f in &candidates {
        let alone = if replay.is_some() { None } else { Command::new(&exe).args(["C16", "--replay", &f.to_string_lossy()]).env("DX_C16_WORKER", "1").env("DX_NO_EVIDENCE", "1").stdout(std::process::Stdio::null()).stderr(std::process::Stdio::null()).status().ok() };
        let died = match (&alone, replay) {
            (_, Some(_)) => true, // the replayed state was the only one in the child that died
            (Some(a), _) => !matches!(a.code(), Some(0..=2)),
            (None, _) => false,
        };
        if !died {
            continue;
        }
        let v: serde_json::Value = std::fs::read_to_string(f).ok().and_then(|t| serde_json::from_str(t.lines().next().unwrap_or("")).ok().or_else(|| serde_json::from_str(&t).ok())).unwrap_or(json!({}));
        let case = v["case"].clone();
        culprits += 1;
        rep.stats.states += 1;
        rep.evaluations += 1;
        let mut atoms = BTreeSet::new();
        atoms.insert(format!("entry={}", case["entry"].as_str().unwrap_or("")));
        rep.violation(Violation { symptom: "expansion-crashes-the-process".into(), atoms, what: format!("[{}] #[derive_ex({})] {} via {}: the process running the expansion died ({:?}) - stack overflow or abort inside the expander", case["reached_via"].as_str().unwrap_or(""), case["attr"].as_str().unwrap_or(""), case["item"].as_str().unwrap_or("").chars().take(160).collect::<String>(), case["entry"].as_str().unwrap_or(""), st), detail: case, standalone: None });
    }
    let _ = std::fs::remove_dir_all(&dir);
    if culprits == 0 {
        crate::report::machinery(&format!("the C16 worker ended abnormally ({st:?}) and no state in progress reproduces it alone"));
    }
    rep.finish()
}

/// Judge every state of a level on all cores under a watchdog: a state whose two expansions
/// take longer than `DX_C16_STATE_TIMEOUT` seconds (default 60) is reported as a violation
/// (expansion does not terminate) and the run ends with exit 1 - the hung thread cannot be joined.
fn judge_all(frontier: &[State], progress: &AtomicU64) -> Vec<Verdict> {
    use std::sync::atomic::AtomicUsize;
    let n = frontier.len();
    let nthreads = threads().max(1).min(n.max(1));
    let next = AtomicUsize::new(0);
    let limit: u64 = std::env::var("DX_C16_STATE_TIMEOUT").ok().and_then(|s| s.parse().ok()).unwrap_or(60);
    // per worker: (index + 1 of the state in progress, start time in ms since `t0`)
    let current: Vec<(AtomicUsize, AtomicU64)> = (0..nthreads).map(|_| (AtomicUsize::new(0), AtomicU64::new(0))).collect();
    let t0 = std::time::Instant::now();
    let done = std::sync::atomic::AtomicBool::new(false);
    let out: Mutex<Vec<Option<Verdict>>> = Mutex::new((0..n).map(|_| None).collect());
    std::thread::scope(|sc| {
        for w in 0..nthreads {
            let (next, current, out) = (&next, &current, &out);
            sc.spawn(move || {
                let inflight = inflight_dir().and_then(|d| std::fs::OpenOptions::new().create(true).write(true).open(d.join(format!("w{w}.json"))).ok());
                loop {
                let i = next.fetch_add(1, Ordering::Relaxed);
                if i >= n {
                    current[w].0.store(0, Ordering::Relaxed);
                    break;
                }
                current[w].1.store(t0.elapsed().as_millis() as u64, Ordering::Relaxed);
                current[w].0.store(i + 1, Ordering::Relaxed);
                // under the supervisor: note the state in progress, so that a crash of the whole process (stack
                // overflow, abort) can be attributed to it
                if let Some(f) = &inflight {
                    use std::os::unix::fs::FileExt;
                    let s = &frontier[i];
                    // one pwrite per state: the record ends at the first newline (older, longer records may follow it)
                    let mut rec = json!({"property": "C16", "symptom": "expansion-crashes-the-process", "case": {"entry": s.entry.name(), "attr": s.attr, "item": s.item, "reached_via": s.via, "depth": s.depth}}).to_string();
                    rec.push('\n');
                    let _ = f.write_all_at(rec.as_bytes(), 0);
                }
                let v = judge(&frontier[i]);
                progress.fetch_add(1, Ordering::Relaxed);
                current[w].0.store(0, Ordering::Relaxed);
                out.lock().unwrap()[i] = Some(v);
                }
            });
        }
        // watchdog
        let (current, done, next) = (&current, &done, &next);
        sc.spawn(move || {
            while !done.load(Ordering::Relaxed) {
                std::thread::sleep(std::time::Duration::from_millis(200));
                let now = t0.elapsed().as_millis() as u64;
                for c in current.iter() {
                    let i = c.0.load(Ordering::Relaxed);
                    if i > 0 && now.saturating_sub(c.1.load(Ordering::Relaxed)) > limit * 1000 {
                        let s = &frontier[i - 1];
                        let dir = crate::report::root().join("replay").join("C16");
                        let _ = std::fs::create_dir_all(&dir);
                        let p = dir.join("hang.json");
                        let _ = std::fs::write(&p, serde_json::to_string_pretty(&json!({"property": "C16", "symptom": "expansion-does-not-terminate", "case": {"entry": s.entry.name(), "attr": s.attr, "item": s.item, "reached_via": s.via, "depth": s.depth}})).unwrap());
                        println!("  expansion-does-not-terminate :: no result after {limit} s for [{}] #[derive_ex({})] {}", s.via, s.attr, s.item.chars().take(200).collect::<String>());
                        println!("VIOLATION property=C16 replay={}", p.to_string_lossy());
                        std::process::exit(1);
                    }
                }
                if current.iter().all(|c| c.0.load(Ordering::Relaxed) == 0) && next.load(Ordering::Relaxed) >= n {
                    break;
                }
            }
        });
    });
    done.store(true, Ordering::Relaxed);
    out.into_inner().unwrap().into_iter().map(|v| v.expect("judged")).collect()
}

pub fn run(ctx: &Ctx, rep: &mut Report) {
    let thorough = ctx.tier.is_thorough();
    rep.rule = "state = a (entry point, argument list, item) triple reached from the seed corpus (every derive_ex item of the test-suite and documentation + generator output) by structure-aware mutation operators (delete/duplicate/swap/replace of attributes, arguments, fields, variants, generic parameters; where-clause / generics deletion; entry switch; unsupported item kinds); breadth-first with a seen-set on canonical token text; every state is expanded twice; distinct = states; non-trivial = the expansion produced at least one item or error".into();
    rep.assumptions = vec!["inputs that do not lex as Rust tokens are outside the property (syntactically valid items only)".into(), "determinism: each expansion builds fresh HashMap/HashSet instances with fresh RandomState, so hash-order dependence would show between the two expansions".into()];
    let max_depth: u8 = if thorough { 2 } else { 1 };
    let cap: usize = if thorough { 6_000_000 } else { 400_000 };
    let mut frontier: Vec<State> = if let Some(p) = &ctx.replay {
        let v: serde_json::Value = serde_json::from_str(&std::fs::read_to_string(p).expect("replay file")).expect("replay json");
        vec![State { entry: if v["case"]["entry"] == "derive" { Entry::Derive } else { Entry::Attr }, attr: v["case"]["attr"].as_str().unwrap_or("").into(), item: v["case"]["item"].as_str().unwrap_or("").into(), depth: max_depth, via: "replay".into() }]
    } else {
        all_seeds(thorough).into_iter().map(|s| State { entry: s.entry, attr: s.attr, item: s.item, depth: 0, via: format!("seed:{}", s.origin) }).collect()
    };
    let mut seen: BTreeSet<(u64, u64)> = BTreeSet::new();
    frontier.retain(|s| seen.insert(key(s)));
    rep.set("seeds", json!(frontier.len()));
    let progress = AtomicU64::new(0);
    let mut depth = 0u8;
    let mut capped = false;
    let mut per_depth = Vec::new();
    while !frontier.is_empty() {
        // judge this level
        let verdicts = judge_all(&frontier, &progress);
        let mut n_err = 0u64;
        for (s, v) in frontier.iter().zip(verdicts.iter()) {
            rep.stats.states += 1;
            match v {
                Verdict::Ok { errors, items } => {
                    rep.evaluations += 1;
                    if *items > 0 {
                        rep.nontrivial += 1;
                    }
                    if *errors > 0 {
                        n_err += 1;
                    }
                }
                Verdict::Bad(sym, what) => {
                    rep.evaluations += 1;
                    let mut atoms = BTreeSet::new();
                    atoms.insert(format!("entry={}", s.entry.name()));
                    atoms.insert(format!("via={}", s.via.split(':').next().unwrap_or("")));
                    rep.violation(Violation { symptom: sym.clone(), atoms, what: format!("[{}] #[derive_ex({})] {} via {}: {}", s.via, s.attr, s.item.chars().take(160).collect::<String>(), s.entry.name(), what.lines().next().unwrap_or("")), detail: json!({"entry": s.entry.name(), "attr": s.attr, "item": s.item, "reached_via": s.via, "depth": s.depth, "observed": what}), standalone: None });
                }
            }
        }
        per_depth.push(json!({"depth": depth, "states": frontier.len(), "states_answered_with_compile_error": n_err}));
        rep.outcome_n(&format!("depth{depth}:expansion-with-error"), n_err);
        rep.outcome_n(&format!("depth{depth}:expansion-without-error"), frontier.len() as u64 - n_err);
        if depth >= max_depth || ctx.replay.is_some() {
            break;
        }
        // expand the level
        // (in chunks: the successors of a whole level, duplicates included, do not fit comfortably in memory)
        let mut next = Vec::new();
        for chunk in frontier.chunks(4096) {
            let next_lists = par_map(chunk, threads(), |_, s| mutations(s));
            for l in next_lists {
                for m in l {
                    rep.stats.transitions += 1;
                    if seen.len() >= cap {
                        capped = true;
                        continue;
                    }
                    if seen.insert(key(&m)) {
                        next.push(m);
                    }
                }
            }
        }
        if rep.samples.len() < 5 {
            for m in next.iter().step_by((next.len() / 3).max(1)).take(3) {
                rep.sample(json!({"entry": m.entry.name(), "attr": m.attr, "item": m.item, "reached_via": m.via, "depth": m.depth}));
            }
        }
        frontier = next;
        depth += 1;
    }
    if ctx.replay.is_none() {
        let inputs: Vec<crate::conform::Input> = all_seeds(thorough).into_iter().filter(|s| !s.is_impl && s.entry == Entry::Attr && !s.traits.is_empty() && !s.attr.contains("dump") && !s.item.contains("__FRAG")).map(|s| crate::conform::Input { entry: Entry::Attr, attr: s.attr, item: s.item }).collect();
        crate::conform::validate_or_die(rep, "c16p", &inputs);
    }
    rep.set("per_depth", json!(per_depth));
    rep.set("max_depth", json!(max_depth));
    rep.set("state_cap", json!(cap));
    rep.set("cap_hit", json!(capped));
    rep.exhaustive = !capped;
    rep.stats.terminals = rep.evaluations;
    rep.distinct = seen.iter().map(|k| k.0).collect();
}
