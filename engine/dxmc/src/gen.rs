//! Item model + printer and the shared attribute alphabets (DESIGN.md section 3).

use crate::refmodel::{Arg, Combo, Tr};

/// Name of the i-th named field.  Deliberately NOT in alphabetical order, so that anything
/// that orders fields by name instead of by declaration position is observable.
pub fn fname(i: usize) -> String {
    if RAW_FIELD_NAMES.with(|r| r.get()) {
        return ["r#type", "r#fn", "r#match", "r#loop", "r#move", "r#ref"][i % 6].to_string();
    }
    // fields 0, 1 and 3 differ only in leading underscores (`q0`, `_q0`, `__q0`): bindings derived from field names must stay distinct
    match i {
        1 => "_q0".to_string(),
        3 => "__q0".to_string(),
        _ => format!("{}{}", ["q", "c", "x", "a", "m", "b"][i % 6], i),
    }
}

thread_local! {
    static RAW_FIELD_NAMES: std::cell::Cell<bool> = std::cell::Cell::new(false);
}
/// While set, `fname` yields raw-identifier keywords (`r#type`, `r#fn`, ..) - used by the checks that
/// build one case at a time (C07, C08, C10) to cover raw field names.
pub fn set_raw_field_names(on: bool) {
    RAW_FIELD_NAMES.with(|r| r.set(on));
}

#[derive(Clone, Debug, Default)]
pub struct FieldDef {
    pub attrs: Vec<String>,
    pub vis: String,
    pub name: Option<String>,
    pub ty: String,
}
impl FieldDef {
    pub fn tuple(ty: &str) -> FieldDef {
        FieldDef { ty: ty.into(), ..Default::default() }
    }
    pub fn named(name: &str, ty: &str) -> FieldDef {
        FieldDef { name: Some(name.into()), ty: ty.into(), ..Default::default() }
    }
    pub fn attr(mut self, a: &str) -> FieldDef {
        if !a.is_empty() {
            self.attrs.push(a.into());
        }
        self
    }
    pub fn attrs(mut self, a: &[String]) -> FieldDef {
        self.attrs.extend(a.iter().filter(|s| !s.is_empty()).cloned());
        self
    }
    fn print(&self) -> String {
        let mut s = String::new();
        for a in &self.attrs {
            s.push_str(a);
            s.push(' ');
        }
        if !self.vis.is_empty() {
            s.push_str(&self.vis);
            s.push(' ');
        }
        if let Some(n) = &self.name {
            s.push_str(n);
            s.push_str(": ");
        }
        s.push_str(&self.ty);
        s
    }
}

#[derive(Clone, Debug)]
pub enum FieldsDef {
    Unit,
    Tuple(Vec<FieldDef>),
    Named(Vec<FieldDef>),
}
impl FieldsDef {
    pub fn fields(&self) -> &[FieldDef] {
        match self {
            FieldsDef::Unit => &[],
            FieldsDef::Tuple(v) | FieldsDef::Named(v) => v,
        }
    }
    pub fn fields_mut(&mut self) -> &mut Vec<FieldDef> {
        match self {
            FieldsDef::Unit => panic!("unit has no fields"),
            FieldsDef::Tuple(v) | FieldsDef::Named(v) => v,
        }
    }
    pub fn len(&self) -> usize {
        self.fields().len()
    }
    /// build tuple or named fields from types; named fields are called f0, f1, ..
    pub fn of(named: bool, fields: Vec<FieldDef>) -> FieldsDef {
        if named {
            FieldsDef::Named(
                fields
                    .into_iter()
                    .enumerate()
                    .map(|(i, mut f)| {
                        if f.name.is_none() {
                            f.name = Some(fname(i));
                        }
                        f
                    })
                    .collect(),
            )
        } else {
            FieldsDef::Tuple(fields)
        }
    }
    fn print(&self) -> String {
        match self {
            FieldsDef::Unit => String::new(),
            FieldsDef::Tuple(v) => format!("({})", v.iter().map(|f| f.print()).collect::<Vec<_>>().join(", ")),
            FieldsDef::Named(v) => format!("{{ {} }}", v.iter().map(|f| f.print()).collect::<Vec<_>>().join(", ")),
        }
    }
    /// constructor expression / pattern with the given per-field expressions
    pub fn ctor(&self, path: &str, args: &[String]) -> String {
        match self {
            FieldsDef::Unit => path.to_string(),
            FieldsDef::Tuple(_) => format!("{}({})", path, args.join(", ")),
            FieldsDef::Named(v) => format!("{} {{ {} }}", path, v.iter().zip(args).map(|(f, a)| format!("{}: {}", f.name.as_ref().unwrap(), a)).collect::<Vec<_>>().join(", ")),
        }
    }
    pub fn member(&self, i: usize) -> String {
        match self {
            FieldsDef::Named(v) => v[i].name.clone().unwrap(),
            _ => i.to_string(),
        }
    }
}

#[derive(Clone, Debug)]
pub struct VariantDef {
    pub attrs: Vec<String>,
    pub name: String,
    pub fields: FieldsDef,
    pub discr: Option<String>,
}
impl VariantDef {
    pub fn new(name: &str, fields: FieldsDef) -> VariantDef {
        VariantDef { attrs: vec![], name: name.into(), fields, discr: None }
    }
    fn print(&self) -> String {
        let mut s = String::new();
        for a in &self.attrs {
            s.push_str(a);
            s.push(' ');
        }
        s.push_str(&self.name);
        let f = self.fields.print();
        if !f.is_empty() {
            if matches!(self.fields, FieldsDef::Named(_)) {
                s.push(' ');
            }
            s.push_str(&f);
        }
        if let Some(d) = &self.discr {
            s.push_str(" = ");
            s.push_str(d);
        }
        s
    }
}

#[derive(Clone, Debug)]
pub enum Body {
    Struct(FieldsDef),
    Enum(Vec<VariantDef>),
}

#[derive(Clone, Debug)]
pub struct ItemDef {
    pub attrs: Vec<String>,
    pub vis: String,
    pub name: String,
    /// e.g. "<T, const N: usize>" or ""
    pub generics: String,
    /// e.g. "where T: Copy" or ""
    pub where_: String,
    pub body: Body,
}
impl ItemDef {
    pub fn strukt(name: &str, generics: &str, fields: FieldsDef) -> ItemDef {
        ItemDef { attrs: vec![], vis: String::new(), name: name.into(), generics: generics.into(), where_: String::new(), body: Body::Struct(fields) }
    }
    pub fn enm(name: &str, generics: &str, variants: Vec<VariantDef>) -> ItemDef {
        ItemDef { attrs: vec![], vis: String::new(), name: name.into(), generics: generics.into(), where_: String::new(), body: Body::Enum(variants) }
    }
    pub fn is_enum(&self) -> bool {
        matches!(self.body, Body::Enum(_))
    }
    pub fn print(&self) -> String {
        let mut s = String::new();
        for a in &self.attrs {
            s.push_str(a);
            s.push('\n');
        }
        if !self.vis.is_empty() {
            s.push_str(&self.vis);
            s.push(' ');
        }
        match &self.body {
            Body::Struct(f) => {
                s.push_str(&format!("struct {}{}", self.name, self.generics));
                match f {
                    FieldsDef::Unit => {
                        if !self.where_.is_empty() {
                            s.push(' ');
                            s.push_str(&self.where_);
                        }
                        s.push(';');
                    }
                    FieldsDef::Tuple(_) => {
                        s.push_str(&f.print());
                        if !self.where_.is_empty() {
                            s.push(' ');
                            s.push_str(&self.where_);
                        }
                        s.push(';');
                    }
                    FieldsDef::Named(_) => {
                        if !self.where_.is_empty() {
                            s.push(' ');
                            s.push_str(&self.where_);
                        }
                        s.push(' ');
                        s.push_str(&f.print());
                    }
                }
            }
            Body::Enum(vs) => {
                s.push_str(&format!("enum {}{}", self.name, self.generics));
                if !self.where_.is_empty() {
                    s.push(' ');
                    s.push_str(&self.where_);
                }
                s.push_str(" { ");
                s.push_str(&vs.iter().map(|v| v.print()).collect::<Vec<_>>().join(", "));
                s.push_str(" }");
            }
        }
        s
    }
}

// ---------------------------------------------------------------------------------------
// comparison attribute text
// ---------------------------------------------------------------------------------------

/// How key / by expressions are written.
#[derive(Clone, Copy, PartialEq, Eq, Debug)]
pub enum KeyStyle {
    /// distinct projection per attribute: `$.k_ord()` / `dxrt::by_ord`
    Distinct,
    /// one consistent key for all attributes: `$.k()` / `dxrt::kby_*`
    Consistent,
    /// one consistent NaN-like partial key: `$.kp()` / `dxrt::pby_*` (no total `by`)
    ConsistentPartial,
}

/// Syntactic form of the key expression (exercises `$` substitution)
#[derive(Clone, Copy, PartialEq, Eq, Debug)]
pub enum KeyForm {
    Method,
    /// `$` used twice
    Twice,
    /// `$` inside nested groups
    Nested,
    /// the key value is wrapped in `dxrt::Ik(..)`, whose inherent `cmp` / `partial_cmp` / `eq` / `hash` give wrong answers
    Inherent,
    /// the key multiplies by a `macro_rules!` `expr` fragment `0 + 1` at the TOP LEVEL of the key expression (the
    /// definition comes out of a macro; `@E@` marks the fragment): read without the fragment's own grouping, the key
    /// would be `k * 0 + 1`, a constant
    Fragment,
    /// the same fragment inside nested groups
    FragmentNested,
}

/// marker of the `expr` fragment in key expressions of `KeyForm::Fragment*`
pub const FRAG: &str = "@E@";

pub fn key_expr(attr: Tr, style: KeyStyle, form: KeyForm) -> String {
    let m = match style {
        KeyStyle::Distinct => format!("k_{}", attr.attr()),
        KeyStyle::Consistent => "k".to_string(),
        KeyStyle::ConsistentPartial => "kp".to_string(),
    };
    match form {
        KeyForm::Method => format!("$.{m}()"),
        KeyForm::Twice => format!("($.{m}(), $.{m}())"),
        KeyForm::Nested => format!("[({{ $.{m}() }}, 0u8)]"),
        KeyForm::Inherent => format!("dxrt::Ik($.{m}())"),
        KeyForm::Fragment => format!("$.{m}() * {FRAG}"),
        KeyForm::FragmentNested => format!("[({{ $.{m}() * {FRAG} }}, 0u8)]"),
    }
}
pub fn by_expr(attr: Tr, style: KeyStyle) -> String {
    match style {
        KeyStyle::Distinct => format!("dxrt::by_{}", attr.attr()),
        KeyStyle::Consistent => match attr {
            Tr::Ord => "dxrt::kby_ord".into(),
            Tr::PartialOrd => "dxrt::kby_partial_ord".into(),
            Tr::Eq | Tr::PartialEq => "dxrt::kby_eq".into(),
            Tr::Hash => "dxrt::kby_hash".into(),
        },
        KeyStyle::ConsistentPartial => match attr {
            Tr::PartialOrd => "dxrt::pby_partial_ord".into(),
            Tr::Eq | Tr::PartialEq => "dxrt::pby_eq".into(),
            Tr::Ord | Tr::Hash => panic!("no total by-function in the partial style"),
        },
    }
}

pub fn attr_text(attr: Tr, arg: Arg, style: KeyStyle, form: KeyForm) -> String {
    let mut parts: Vec<String> = Vec::new();
    if arg.reverse() {
        parts.push("reverse".into());
    }
    if arg.ignore() {
        parts.push("ignore".into());
    }
    if arg.key() {
        parts.push(format!("key = {}", key_expr(attr, style, form)));
    }
    if arg.by() {
        parts.push(format!("by = {}", by_expr(attr, style)));
    }
    if parts.is_empty() {
        return String::new();
    }
    format!("#[{}({})]", attr.attr(), parts.join(", "))
}

/// like `combo_attrs`, but the key of attribute `identity` (if it carries one) is written `$`
pub fn combo_attrs_id(c: &Combo, style: KeyStyle, form: KeyForm, identity: Option<Tr>) -> Vec<String> {
    Tr::ALL
        .iter()
        .map(|&t| {
            let a = attr_text(t, c.get(t), style, form);
            if identity == Some(t) && c.get(t).key() {
                a.replace(&format!("key = {}", key_expr(t, style, form)), "key = $")
            } else {
                a
            }
        })
        .filter(|s| !s.is_empty())
        .collect()
}

pub fn combo_attrs(c: &Combo, style: KeyStyle, form: KeyForm) -> Vec<String> {
    Tr::ALL.iter().map(|&t| attr_text(t, c.get(t), style, form)).filter(|s| !s.is_empty()).collect()
}

/// Containers for the "one configured field" matrices.
#[derive(Clone, Copy, PartialEq, Eq, Debug, Hash, PartialOrd, Ord)]
pub enum Container {
    TupleStruct,
    NamedStruct,
    EnumTupleVariant,
    EnumNamedVariant,
}
impl Container {
    pub fn name(self) -> &'static str {
        match self {
            Container::TupleStruct => "tuple-struct",
            Container::NamedStruct => "named-struct",
            Container::EnumTupleVariant => "enum-tuple-variant",
            Container::EnumNamedVariant => "enum-named-variant",
        }
    }
    pub fn is_enum(self) -> bool {
        matches!(self, Container::EnumTupleVariant | Container::EnumNamedVariant)
    }
}

/// Where the configured field sits among plain `u8` neighbours.
#[derive(Clone, Copy, PartialEq, Eq, Debug, Hash, PartialOrd, Ord)]
pub enum Ctx {
    Alone,
    FirstOf2,
    LastOf2,
    MiddleOf3,
}
impl Ctx {
    pub fn name(self) -> &'static str {
        match self {
            Ctx::Alone => "alone",
            Ctx::FirstOf2 => "first-of-2",
            Ctx::LastOf2 => "last-of-2",
            Ctx::MiddleOf3 => "middle-of-3",
        }
    }
    /// (number of fields, index of the configured one)
    pub fn layout(self) -> (usize, usize) {
        match self {
            Ctx::Alone => (1, 0),
            Ctx::FirstOf2 => (2, 0),
            Ctx::LastOf2 => (2, 1),
            Ctx::MiddleOf3 => (3, 1),
        }
    }
}

/// Build the probe item `X` with one configured field of type `cfg_ty` carrying `attrs`.
/// Enum containers are `enum X { A, B(..cfg..), C { z: u8 } }`-shaped: the configured
/// variant sits between a unit and a named variant so that cross-variant order is visible.
pub fn single_field_item(container: Container, ctx: Ctx, cfg_ty: &str, attrs: &[String], generics: &str) -> ItemDef {
    let (n, at) = ctx.layout();
    let mut fs = Vec::new();
    for i in 0..n {
        if i == at {
            fs.push(FieldDef::tuple(cfg_ty).attrs(attrs));
        } else {
            fs.push(FieldDef::tuple("u8"));
        }
    }
    match container {
        Container::TupleStruct => ItemDef::strukt("X", generics, FieldsDef::of(false, fs)),
        Container::NamedStruct => ItemDef::strukt("X", generics, FieldsDef::of(true, fs)),
        Container::EnumTupleVariant => ItemDef::enm("X", generics, vec![VariantDef::new("A", FieldsDef::Unit), VariantDef::new("B", FieldsDef::of(false, fs)), VariantDef::new("C", FieldsDef::of(true, vec![FieldDef::tuple("u8")]))]),
        Container::EnumNamedVariant => ItemDef::enm("X", generics, vec![VariantDef::new("A", FieldsDef::Unit), VariantDef::new("B", FieldsDef::of(true, fs)), VariantDef::new("C", FieldsDef::of(false, vec![FieldDef::tuple("u8")]))]),
    }
}

// ---------------------------------------------------------------------------------------
// Shape grammar Sh(n_v, n_f) (DESIGN.md section 3)
// ---------------------------------------------------------------------------------------

#[derive(Clone, Copy, PartialEq, Eq, Debug, Hash, PartialOrd, Ord)]
pub enum SKind {
    Unit,
    Tuple,
    Named,
}

#[derive(Clone, Debug, PartialEq, Eq, Hash)]
pub struct VShape {
    pub kind: SKind,
    pub n: usize,
}

#[derive(Clone, Debug, PartialEq, Eq, Hash)]
pub struct Shape {
    pub is_enum: bool,
    /// a struct has exactly one entry
    pub variants: Vec<VShape>,
}

pub const SHAPE_VNAMES: [&str; 12] = ["A", "B", "C", "D", "E", "F", "G", "H", "J", "K", "L", "M"];

/// menu of variant / struct-body shapes with up to `max_n` fields:
/// unit, tuple(0..=max_n), named(0..=max_n)
pub fn vshape_menu(max_n: usize) -> Vec<VShape> {
    let mut v = vec![VShape { kind: SKind::Unit, n: 0 }];
    for n in 0..=max_n {
        v.push(VShape { kind: SKind::Tuple, n });
    }
    for n in 0..=max_n {
        v.push(VShape { kind: SKind::Named, n });
    }
    v
}

impl Shape {
    pub fn vname(&self, vi: usize) -> &'static str {
        SHAPE_VNAMES[vi]
    }
    pub fn path(&self, vi: usize) -> String {
        if self.is_enum {
            format!("X::{}", SHAPE_VNAMES[vi])
        } else {
            "X".into()
        }
    }
    pub fn fields_def(&self, vi: usize, ty: &dyn Fn(usize, usize) -> String, attrs: &dyn Fn(usize, usize) -> Vec<String>) -> FieldsDef {
        let v = &self.variants[vi];
        let fs: Vec<FieldDef> = (0..v.n).map(|fi| FieldDef::tuple(&ty(vi, fi)).attrs(&attrs(vi, fi))).collect();
        match v.kind {
            SKind::Unit => FieldsDef::Unit,
            SKind::Tuple => FieldsDef::of(false, fs),
            SKind::Named => FieldsDef::of(true, fs),
        }
    }
    /// the item `X` with per-field types and attributes
    pub fn item(&self, generics: &str, ty: &dyn Fn(usize, usize) -> String, attrs: &dyn Fn(usize, usize) -> Vec<String>) -> ItemDef {
        if self.is_enum {
            ItemDef::enm("X", generics, (0..self.variants.len()).map(|vi| VariantDef::new(SHAPE_VNAMES[vi], self.fields_def(vi, ty, attrs))).collect())
        } else {
            ItemDef::strukt("X", generics, self.fields_def(0, ty, attrs))
        }
    }
    /// constructor / pattern for variant `vi` with the given per-field expressions
    pub fn ctor(&self, vi: usize, args: &[String]) -> String {
        let none = |_: usize, _: usize| String::new();
        let noattrs = |_: usize, _: usize| Vec::new();
        self.fields_def(vi, &none, &noattrs).ctor(&self.path(vi), args)
    }
    pub fn member(&self, vi: usize, fi: usize) -> String {
        match self.variants[vi].kind {
            SKind::Named => fname(fi),
            _ => fi.to_string(),
        }
    }
    pub fn describe(&self) -> String {
        let parts: Vec<String> = self.variants.iter().map(|v| match v.kind {
            SKind::Unit => "unit".to_string(),
            SKind::Tuple => format!("tuple{}", v.n),
            SKind::Named => format!("named{}", v.n),
        }).collect();
        format!("{}[{}]", if self.is_enum { "enum" } else { "struct" }, parts.join(","))
    }
    pub fn total_fields(&self) -> usize {
        self.variants.iter().map(|v| v.n).sum()
    }
}

/// choose a shape: struct bodies from the menu, enums with 0..=max_v variants each from the menu
pub fn pick_shape(ch: &mut crate::explore::Ch, max_v: usize, max_n: usize, allow_empty_enum: bool) -> Shape {
    let menu = vshape_menu(max_n);
    // slot 0: struct or enum with k variants
    let lo = if allow_empty_enum { 0 } else { 1 };
    let k = ch.pick(1 + (max_v + 1 - lo));
    if k == 0 {
        let v = ch.of(&menu).clone();
        Shape { is_enum: false, variants: vec![v] }
    } else {
        let nv = k - 1 + lo;
        let mut vs = Vec::new();
        for _ in 0..nv {
            vs.push(ch.of(&menu).clone());
        }
        Shape { is_enum: true, variants: vs }
    }
}


// ---------------------------------------------------------------------------------------
// macro_rules!-generated definitions
// ---------------------------------------------------------------------------------------

/// Rewrites `head item` so that the item is produced by a `macro_rules!` macro whose body holds the derive attribute(s)
/// and the definition, while every helper attribute (`#[ord(..)]`, `#[debug(..)]`, `#[default(..)]`, ..) arrives as a
/// `meta` fragment of the macro CALL - i.e. with the syntax context of the caller, not of the macro body.
/// Returns None if the item carries no helper attribute.
pub fn macroize_helper_attrs(head: &str, item: &str) -> Option<String> {
    const HELPERS: [&str; 7] = ["debug", "default", "ord", "partial_ord", "eq", "partial_eq", "hash"];
    let b: Vec<char> = item.chars().collect();
    let mut out = String::new();
    let mut metas: Vec<String> = Vec::new();
    let mut i = 0;
    while i < b.len() {
        if b[i] == '#' && i + 1 < b.len() && b[i + 1] == '[' {
            // find the matching `]`
            let mut depth = 0i32;
            let mut j = i + 1;
            let mut in_str = false;
            while j < b.len() {
                let c = b[j];
                if in_str {
                    if c == '\\' {
                        j += 1;
                    } else if c == '"' {
                        in_str = false;
                    }
                } else if c == '"' {
                    in_str = true;
                } else if c == '[' || c == '(' || c == '{' {
                    depth += 1;
                } else if c == ']' || c == ')' || c == '}' {
                    depth -= 1;
                    if depth == 0 {
                        break;
                    }
                }
                j += 1;
            }
            let inner: String = b[i + 2..j].iter().collect();
            let name: String = inner.trim_start().chars().take_while(|c| c.is_alphanumeric() || *c == '_').collect();
            if HELPERS.contains(&name.as_str()) {
                out.push_str(&format!("#[$m{}]", metas.len()));
                metas.push(inner.trim().to_string());
            } else {
                out.push_str(&b[i..=j].iter().collect::<String>());
            }
            i = j + 1;
        } else {
            out.push(b[i]);
            i += 1;
        }
    }
    if metas.is_empty() {
        return None;
    }
    let params: Vec<String> = (0..metas.len()).map(|k| format!("$m{k}:meta")).collect();
    Some(format!("macro_rules! mk_item {{ ({}) => {{ {head}\n{out} }} }}\nmk_item!({});\n", params.join(", "), metas.join(", ")))
}

/// Like `macroize_helper_attrs`, but only the VALUE expression of each `#[default(expr ..)]` attribute arrives from
/// the macro call, as an `expr` fragment (`_` and empty argument lists stay in the macro body).
pub fn macroize_default_exprs(head: &str, item: &str) -> Option<String> {
    let mut out = String::new();
    let mut exprs: Vec<String> = Vec::new();
    let mut rest = item;
    while let Some(pos) = rest.find("#[default(") {
        let start = pos + "#[default(".len();
        out.push_str(&rest[..start]);
        // the first top-level argument
        let b: Vec<char> = rest[start..].chars().collect();
        let mut depth = 0i32;
        let mut in_str = false;
        let mut j = 0;
        while j < b.len() {
            let c = b[j];
            if in_str {
                if c == '\\' {
                    j += 1;
                } else if c == '"' {
                    in_str = false;
                }
            } else if c == '"' {
                in_str = true;
            } else if c == '(' || c == '[' || c == '{' {
                depth += 1;
            } else if c == ')' || c == ']' || c == '}' {
                if depth == 0 {
                    break;
                }
                depth -= 1;
            } else if c == ',' && depth == 0 {
                break;
            }
            j += 1;
        }
        let arg: String = b[..j].iter().collect();
        let a = arg.trim();
        if a.is_empty() || a == "_" || a.starts_with("bound(") {
            out.push_str(&arg);
        } else {
            out.push_str(&format!("$e{}", exprs.len()));
            exprs.push(a.to_string());
        }
        let consumed: usize = b[..j].iter().map(|c| c.len_utf8()).sum();
        rest = &rest[start + consumed..];
    }
    out.push_str(rest);
    if exprs.is_empty() {
        return None;
    }
    let params: Vec<String> = (0..exprs.len()).map(|k| format!("$e{k}:expr")).collect();
    Some(format!("macro_rules! mk_item {{ ({}) => {{ {head}\n{out} }} }}\nmk_item!({});\n", params.join(", "), exprs.join(", ")))
}
