//! C06 — Hash feeds exactly the effective inputs of non-ignored fields, in order.
//! Channel X with a recording Hasher (DESIGN.md 5/C06).

use crate::c01::{container_spec, evaluate_cases, Case};
use crate::cmpx::*;
use crate::expand::Entry;
use crate::explore::{explore, replay, Ch};
use crate::gen::{Container, KeyForm, KeyStyle};
use crate::refmodel::*;
use crate::report::Report;
use crate::Ctx;

fn trait_sets() -> Vec<Vec<Tr>> {
    vec![vec![Hash], vec![Hash, PartialEq, Eq], vec![Ord, PartialOrd, Eq, PartialEq, Hash], vec![Hash, PartialEq]]
}

/// single field carrying one of the 112 (hash, eq, ord) combinations
fn gen_single(ch: &mut Ch, thorough: bool) -> Option<Case> {
    use crate::gen::Ctx as C;
    let sets = trait_sets();
    let derived = ch.of(&sets).clone();
    let entry = *ch.of(&Entry::BOTH);
    let places: Vec<(Container, C)> = if thorough {
        let mut v = Vec::new();
        for c in [Container::TupleStruct, Container::NamedStruct, Container::EnumTupleVariant, Container::EnumNamedVariant] {
            for x in [C::Alone, C::FirstOf2, C::LastOf2, C::MiddleOf3] {
                v.push((c, x));
            }
        }
        v
    } else {
        vec![(Container::NamedStruct, C::FirstOf2), (Container::EnumTupleVariant, C::LastOf2), (Container::TupleStruct, C::MiddleOf3)]
    };
    let (container, ctx) = *ch.of(&places);
    let mut combo = Combo::PLAIN;
    for t in [Hash, Eq, Ord] {
        let menu: &[Arg] = if t == Ord { &Arg::ORD7 } else { &Arg::EQ4 };
        let a = *ch.of(menu);
        if a != Arg::None && !recognised(t, &derived) {
            return None;
        }
        combo = combo.with(t, a);
    }
    if !derived.iter().all(|&t| ref_accept(&combo, t)) {
        return None;
    }
    let form = match ctx {
        C::Alone => KeyForm::Inherent,
        C::FirstOf2 => KeyForm::Method,
        C::LastOf2 => KeyForm::Twice,
        C::MiddleOf3 => KeyForm::Nested,
    };
    let mut cfgf = FieldSpec::cfg(combo, form);
    let keyed: Vec<Tr> = [Hash, Eq, Ord].iter().copied().filter(|t| combo.get(*t).key()).collect();
    if !keyed.is_empty() {
        let k = ch.pick(keyed.len() + 1);
        if k > 0 {
            cfgf.identity = Some(keyed[k - 1]);
        }
    }
    let ts = container_spec(container, ctx, cfgf, KeyStyle::Distinct);
    Some(Case { gen: "single", vector: ch.vector(), ts, derived, entry })
}

/// multi-field structs / enums over a 7-letter alphabet
fn gen_multi(ch: &mut Ch, thorough: bool) -> Option<Case> {
    let p = Combo::PLAIN;
    let alpha = [p, p.with(Hash, Arg::Ignore), p.with(Eq, Arg::Ignore), p.with(Hash, Arg::Key), p.with(Eq, Arg::Key), p.with(Ord, Arg::Key), p.with(Hash, Arg::By)];
    let derived: Vec<Tr> = vec![Hash];
    let entry = *ch.of(&Entry::BOTH);
    let shape = ch.pick(if thorough { 4 } else { 3 });
    let n = 1 + ch.pick(if thorough { 4 } else { 3 });
    let mut fields = Vec::new();
    for i in 0..n {
        let c = *ch.of(&alpha);
        let mut f = FieldSpec { ty: FTy::V, dom: 3, combo: c, form: [KeyForm::Inherent, KeyForm::Twice, KeyForm::Nested, KeyForm::Method][i % 4], identity: None };
        if c.is_plain() && i % 2 == 1 {
            f.ty = [FTy::U8, FTy::OptT, FTy::WT][(i / 2) % 3];
        }
        fields.push(f);
    }
    if entry == Entry::Derive && !thorough && n > 2 {
        return None;
    }
    let ts = match shape {
        0 => TypeSpec { is_enum: false, variants: vec![VariantSpec { kind: VKind::Tuple, fields }], style: KeyStyle::Distinct, shared_arg: None, discr: 0 },
        1 => TypeSpec { is_enum: false, variants: vec![VariantSpec { kind: VKind::Named, fields }], style: KeyStyle::Distinct, shared_arg: None, discr: 0 },
        2 => TypeSpec { is_enum: true, variants: vec![VariantSpec { kind: VKind::Tuple, fields: fields.clone() }, VariantSpec { kind: VKind::Unit, fields: vec![] }, VariantSpec { kind: VKind::Named, fields }], style: KeyStyle::Distinct, shared_arg: None, discr: 0 },
        _ => {
            let rev: Vec<FieldSpec> = fields.iter().rev().cloned().collect();
            TypeSpec { is_enum: true, variants: vec![VariantSpec { kind: VKind::Unit, fields: vec![] }, VariantSpec { kind: VKind::Named, fields }, VariantSpec { kind: VKind::Tuple, fields: rev }, VariantSpec { kind: VKind::Tuple, fields: vec![] }], style: KeyStyle::Distinct, shared_arg: None, discr: 0 }
        }
    };
    Some(Case { gen: "multi", vector: ch.vector(), ts, derived, entry })
}

/// every case of the two generators (used by C20 as well)
pub fn all_cases(thorough: bool) -> (Vec<Case>, crate::explore::Stats) {
    let mut cases = Vec::new();
    let mut stats = crate::explore::Stats::default();
    for g in [gen_single as fn(&mut Ch, bool) -> Option<Case>, gen_multi] {
        let st = explore(|ch| g(ch, thorough), |_, c| cases.push(c));
        stats.add(&st);
    }
    (cases, stats)
}

pub fn run(ctx: &Ctx, rep: &mut Report) {
    let thorough = ctx.tier.is_thorough();
    rep.rule = "terminal state = (trait set in {Hash | Hash+PartialEq+Eq | all five | Hash+PartialEq}, entry point, container x context, one of the 112 (hash, eq, ord) combinations accepted by the reference) or a multi-field struct/enum over {plain, hash(ignore), eq(ignore), hash(key), eq(key), ord(key), hash(by)}; inner enumeration = every value of the product of the field domains, hashed into a recording Hasher; distinct by program text; non-trivial = at least one helper attribute and at least 2 distinct feeds".into();
    rep.assumptions = vec![
        "reference feed = concatenation, in field order, of Hash::hash of the effective input selected hash.by > hash.key > eq.key > ord.key > field (computed inside the generated program from reference-selected expressions); I4: no discriminant".into(),
        "independently, dxmc checks for all same-variant pairs that feeds are equal iff the reference effective-input vectors are equal".into(),
    ];
    let mut cases: Vec<Case> = Vec::new();
    if let Some(p) = &ctx.replay {
        let v: serde_json::Value = serde_json::from_str(&std::fs::read_to_string(p).expect("replay file")).expect("replay json");
        let vec: Vec<usize> = v["case"]["vector"].as_array().unwrap().iter().map(|x| x.as_u64().unwrap() as usize).collect();
        let th = v["case"]["tier"] == "thorough";
        let c = match v["case"]["gen"].as_str().unwrap_or("") {
            "single" => replay(|ch| gen_single(ch, th), &vec),
            _ => replay(|ch| gen_multi(ch, th), &vec),
        };
        cases.push(c.unwrap_or_else(|| crate::report::machinery("replayed vector is pruned")));
    } else {
        for g in [gen_single as fn(&mut Ch, bool) -> Option<Case>, gen_multi] {
            let st = explore(|ch| g(ch, thorough), |_, c| cases.push(c));
            rep.stats.add(&st);
        }
    }
    evaluate_cases(ctx, rep, &cases, true);
}
