//! C04 — explicit `bound(...)` follows the documented nine-level priority.
//! Channel E; reference `ref_bounds` (DESIGN.md 5/C04).

use crate::expand::{self, Aligned, Entry, OutItem, Slot};
use crate::explore::{explore, par_map, replay, threads, Ch};
use crate::refmodel::{self, precedence, select, Arg, Combo, Sel, Tr};
use crate::report::{Report, Violation};
use crate::runner::first_line;
use crate::Ctx;
use serde_json::json;
use std::collections::{BTreeMap, BTreeSet};

#[derive(Clone, Copy, PartialEq, Eq, Debug, Hash, PartialOrd, Ord)]
pub enum Place {
    Type,
    Variant,
    Field,
}
impl Place {
    fn name(self) -> &'static str {
        match self {
            Place::Type => "type",
            Place::Variant => "variant",
            Place::Field => "field",
        }
    }
}

#[derive(Clone, PartialEq, Eq, Debug, Hash, PartialOrd, Ord)]
pub enum Kind {
    /// `#[<name>(bound(..))]`
    Helper(String),
    /// `#[derive_ex(<Trait>(bound(..)))]`
    PerTrait(String),
    /// `#[derive_ex(.., bound(..))]`
    Shared,
}

#[derive(Clone, Debug)]
pub struct SlotDef {
    pub place: Place,
    pub kind: Kind,
}
impl SlotDef {
    fn label(&self) -> String {
        match &self.kind {
            Kind::Helper(n) => format!("{}:#[{}(bound)]", self.place.name(), n),
            Kind::PerTrait(t) => format!("{}:derive_ex({}(bound))", self.place.name(), t),
            Kind::Shared => format!("{}:derive_ex(..,bound)", self.place.name()),
        }
    }
}

/// bound option of one level
#[derive(Clone, Copy, PartialEq, Eq, Debug, Hash, PartialOrd, Ord)]
pub enum Opt {
    Absent,
    Empty,
    Pred,
    Dots,
    PredDots,
    Type,
    /// `bound(.., T: M_l)`: the default marker written BEFORE the predicate
    DotsPred,
    /// `bound(W_l<u8>)`: a type that does not mention any parameter
    TypeNoParam,
    /// `bound(W_l<T>, ..)`: a `Type` entry next to the default marker - contributes `W_l<T>: Trait` AND continues
    TypeDots,
}
impl Opt {
    pub const ALL: [Opt; 9] = [Opt::Absent, Opt::Empty, Opt::Pred, Opt::Dots, Opt::PredDots, Opt::Type, Opt::DotsPred, Opt::TypeNoParam, Opt::TypeDots];
    pub const THREE: [Opt; 3] = [Opt::Absent, Opt::Pred, Opt::PredDots];
    /// the options that differ in WHAT a level does (stop / continue x nothing / predicate / type); the remaining ones
    /// are other spellings of these
    pub const CORE: [Opt; 6] = [Opt::Empty, Opt::Pred, Opt::Dots, Opt::PredDots, Opt::Type, Opt::TypeDots];
    /// three simultaneous deviations (thorough tier) range over one option per effect: stop with nothing / with a
    /// predicate / with a type, continue with a predicate
    pub const FOUR: [Opt; 4] = [Opt::Empty, Opt::Pred, Opt::PredDots, Opt::Type];
    fn continues(self) -> bool {
        matches!(self, Opt::Absent | Opt::Dots | Opt::PredDots | Opt::DotsPred | Opt::TypeDots)
    }
    fn text(self, n: usize) -> Option<String> {
        Some(match self {
            Opt::Absent => return None,
            Opt::Empty => "bound()".into(),
            Opt::Pred => format!("bound(T: M{n})"),
            Opt::Dots => "bound(..)".into(),
            Opt::PredDots => format!("bound(T: M{n}, ..)"),
            Opt::Type => format!("bound(W{n}<T>)"),
            Opt::DotsPred => format!("bound(.., T: M{n})"),
            Opt::TypeNoParam => format!("bound(W{n}<u8>)"),
            Opt::TypeDots => format!("bound(W{n}<T>, ..)"),
        })
    }
    fn short(self) -> &'static str {
        match self {
            Opt::Absent => "absent",
            Opt::Empty => "bound()",
            Opt::Pred => "bound(P)",
            Opt::Dots => "bound(..)",
            Opt::PredDots => "bound(P,..)",
            Opt::Type => "bound(Ty)",
            Opt::DotsPred => "bound(..,P)",
            Opt::TypeNoParam => "bound(Ty<u8>)",
            Opt::TypeDots => "bound(Ty,..)",
        }
    }
}

/// One probe configuration: which traits are derived on which shape, and the slots.
#[derive(Clone, Debug)]
pub struct Config {
    pub name: String,
    pub derived: Vec<String>,
    pub is_enum: bool,
    /// probe shape `enum X<T> { U, B(F3<T>) }` with the variant slots on the FIELD-LESS variant U
    pub unit_variant: bool,
    pub slots: Vec<SlotDef>,
}

const CMP: [&str; 5] = ["Ord", "PartialOrd", "Eq", "PartialEq", "Hash"];
fn is_cmp(t: &str) -> bool {
    CMP.contains(&t)
}
fn helper_of(t: &str) -> Option<&'static str> {
    match t {
        "Debug" => Some("debug"),
        "Default" => Some("default"),
        _ => None,
    }
}
fn enum_capable(t: &str) -> bool {
    matches!(t, "Clone" | "Copy" | "Debug" | "Default") || is_cmp(t)
}
fn field_levels(t: &str) -> bool {
    !matches!(t, "Deref" | "DerefMut")
}

pub fn make_config(name: &str, derived: &[&str], is_enum: bool) -> Config {
    let mut slots = Vec::new();
    let places: Vec<Place> = if is_enum { vec![Place::Type, Place::Variant, Place::Field] } else { vec![Place::Type, Place::Field] };
    // helper attribute names recognised for this derived set
    let mut helpers: Vec<String> = Vec::new();
    let dtr: Vec<Tr> = derived.iter().filter_map(|d| Tr::from_name(d)).collect();
    for a in [Tr::PartialEq, Tr::Eq, Tr::PartialOrd, Tr::Ord, Tr::Hash] {
        // I1: `partial_eq` only when PartialEq is derived (affects() answers false for (partial_eq, Eq))
        if refmodel::recognised(a, &dtr) {
            helpers.push(a.attr().to_string());
        }
    }
    for d in derived {
        if let Some(h) = helper_of(d) {
            helpers.push(h.to_string());
        }
    }
    for p in places {
        if p == Place::Field && !derived.iter().any(|d| field_levels(d)) {
            continue;
        }
        for h in &helpers {
            slots.push(SlotDef { place: p, kind: Kind::Helper(h.clone()) });
        }
        for d in derived {
            if p == Place::Field && !field_levels(d) {
                continue;
            }
            slots.push(SlotDef { place: p, kind: Kind::PerTrait(d.to_string()) });
        }
        slots.push(SlotDef { place: p, kind: Kind::Shared });
    }
    Config { name: name.into(), derived: derived.iter().map(|s| s.to_string()).collect(), is_enum, unit_variant: false, slots }
}

#[derive(Clone, Debug)]
pub struct Case {
    pub cfg: usize,
    pub vector: Vec<usize>,
    pub opts: Vec<Opt>,
    /// for comparison configs: attribute carrying `key = ..` on the probed field (None = no key)
    pub key_on: Option<Tr>,
    /// a second attribute of the probed field carrying `key = ..` as well
    pub key_on2: Option<Tr>,
    /// the custom comparisons are written `by = ..` instead of `key = ..`
    pub key_by: bool,
    /// Default configs: the probed field carries an explicit value `#[default(F1::new())]`
    /// 0 none, 1 the probed field carries an explicit value, 2 the TYPE carries a value (`#[default(X::mk(), ..)]`):
    /// only the type levels are consulted then
    pub dvalue: u8,
    /// Debug configs: the probed field carries `#[debug(transparent)]`
    pub dtransparent: bool,
    pub entry: Entry,
    /// 0: the item has the type parameter `T`; 1: only a lifetime parameter (`T` spelled `&'a u8`); 2: no parameter
    /// at all (`T` spelled `u8`) - no field type mentions a type parameter, so no default bound exists, but the
    /// item's own where-clause and every explicit `bound(..)` contribution must still arrive
    pub nogen: u8,
    pub attr: String,
    pub item: String,
}

fn bound_arg(o: Opt, n: usize) -> Option<String> {
    o.text(n)
}

/// Render attribute + item text for a configuration and an option per slot.
fn render(cfg: &Config, opts: &[Opt], key_on: Option<Tr>, key_on2: Option<Tr>, key_by: bool, dvalue: u8, dtransparent: bool) -> (String, String) {
    let at = |place: Place, kind: &Kind| -> Option<(usize, Opt)> { cfg.slots.iter().position(|s| s.place == place && &s.kind == kind).map(|i| (i, opts[i])) };
    // derive_ex argument list for a placement; `always` = list every derived trait
    let list = |place: Place, always: bool| -> Option<String> {
        let shared = at(place, &Kind::Shared).and_then(|(i, o)| bound_arg(o, i));
        let mut parts: Vec<String> = Vec::new();
        for d in &cfg.derived {
            let per = at(place, &Kind::PerTrait(d.clone())).and_then(|(i, o)| bound_arg(o, i));
            match per {
                Some(b) => parts.push(format!("{d}({b})")),
                None => {
                    if always || shared.is_some() {
                        parts.push(d.clone())
                    }
                }
            }
        }
        if parts.is_empty() {
            return None;
        }
        if let Some(s) = shared {
            parts.push(s);
        }
        Some(parts.join(", "))
    };
    let helper_attrs = |place: Place| -> Vec<String> {
        let mut v = Vec::new();
        for (i, s) in cfg.slots.iter().enumerate() {
            if s.place != place {
                continue;
            }
            if let Kind::Helper(h) = &s.kind {
                let b = bound_arg(opts[i], i);
                let key = if place == Place::Field && (key_on.map(|k| k.attr() == h).unwrap_or(false) || key_on2.map(|k| k.attr() == h).unwrap_or(false)) { Some(if key_by { "by = by_fn".to_string() } else { "key = $.k()".to_string() }) } else { None };
                if h == "default" {
                    // on the default variant the marker itself is required
                    let val = if dvalue == 1 && place == Place::Field { "F1::new()" } else if dvalue == 2 && place == Place::Type { "X::mk()" } else { "_" };
                    match (&b, place) {
                        (Some(b), _) => v.push(format!("#[default({val}, {b})]")),
                        (None, Place::Variant) => v.push("#[default]".into()),
                        (None, Place::Field) if dvalue == 1 => v.push("#[default(F1::new())]".into()),
                        (None, Place::Type) if dvalue == 2 => v.push("#[default(X::mk())]".into()),
                        _ => {}
                    }
                } else {
                    let tr = if h == "debug" && place == Place::Field && dtransparent { Some("transparent".to_string()) } else { None };
                    let args: Vec<String> = tr.into_iter().chain(key.into_iter()).chain(b.into_iter()).collect();
                    if !args.is_empty() {
                        v.push(format!("#[{}({})]", h, args.join(", ")));
                    }
                }
            }
        }
        v
    };
    let attr = list(Place::Type, true).unwrap();
    let mut item = String::new();
    for a in helper_attrs(Place::Type) {
        item.push_str(&a);
        item.push(' ');
    }
    let fattrs = {
        let mut v = helper_attrs(Place::Field);
        if let Some(l) = list(Place::Field, false) {
            v.push(format!("#[derive_ex({l})]"));
        }
        v.join(" ")
    };
    if cfg.is_enum {
        let mut vattrs = helper_attrs(Place::Variant);
        if cfg.derived.iter().any(|d| d == "Default") && !vattrs.iter().any(|a| a.starts_with("#[default")) {
            vattrs.push("#[default]".into());
        }
        if let Some(l) = list(Place::Variant, false) {
            vattrs.push(format!("#[derive_ex({l})]"));
        }
        if cfg.unit_variant {
            item.push_str(&format!("enum X<T> where T: Decl {{ {} U, B(F3<T>) }}", vattrs.join(" ")));
        } else {
            item.push_str(&format!("enum X<T> where T: Decl {{ {} A({} F1<T>, F2<T>), B(F3<T>) }}", vattrs.join(" "), fattrs));
        }
    } else {
        let single = cfg.derived.iter().any(|d| !field_levels(d));
        if single {
            item.push_str(&format!("struct X<T>({} F1<T>) where T: Decl;", fattrs));
        } else {
            item.push_str(&format!("struct X<T>({} F1<T>, F2<T>) where T: Decl;", fattrs));
        }
    }
    (attr, item)
}

/// Reference: expected where-set of the impl of `t` (as a set of abstract predicates).
/// `Pred(n)` = `T: M<n>`, `Ty(n)` = `W<n><T>: <trait form>`, `Field(k)` = `F<k><T>: <form>`.
#[derive(Clone, Debug, PartialEq, Eq, PartialOrd, Ord)]
pub enum Exp {
    Decl,
    Pred(usize),
    Ty(usize),
    /// `W<n><u8>: <trait form>`
    TyNoParam(usize),
    Field(usize),
}

pub fn ref_bounds(cfg: &Config, opts: &[Opt], key_on: Option<Tr>, key_on2: Option<Tr>, key_by: bool, dvalue: u8, dtransparent: bool, t: &str) -> BTreeSet<Exp> {
    let mut out = BTreeSet::new();
    out.insert(Exp::Decl);
    let tr = Tr::from_name(t);
    // levels of one placement that apply to trait t, in priority order
    let levels = |place: Place, helper_cut: Option<Tr>| -> Vec<usize> {
        let mut v = Vec::new();
        if let Some(tr) = tr {
            for &a in precedence(tr) {
                if let Some(i) = cfg.slots.iter().position(|s| s.place == place && s.kind == Kind::Helper(a.attr().into())) {
                    v.push(i);
                }
                if helper_cut == Some(a) {
                    break;
                }
            }
        } else if let Some(h) = helper_of(t) {
            if let Some(i) = cfg.slots.iter().position(|s| s.place == place && s.kind == Kind::Helper(h.into())) {
                v.push(i);
            }
        }
        if let Some(i) = cfg.slots.iter().position(|s| s.place == place && s.kind == Kind::PerTrait(t.into())) {
            v.push(i);
        }
        if let Some(i) = cfg.slots.iter().position(|s| s.place == place && s.kind == Kind::Shared) {
            v.push(i);
        }
        v
    };
    let mut walk = |mut cont: bool, ls: &[usize], out: &mut BTreeSet<Exp>| -> bool {
        for &i in ls {
            if !cont {
                break;
            }
            match opts[i] {
                Opt::Pred | Opt::PredDots | Opt::DotsPred => {
                    out.insert(Exp::Pred(i));
                }
                Opt::Type | Opt::TypeDots => {
                    out.insert(Exp::Ty(i));
                }
                Opt::TypeNoParam => {
                    out.insert(Exp::TyNoParam(i));
                }
                _ => {}
            }
            cont = opts[i].continues();
        }
        cont
    };
    let use_type = walk(true, &levels(Place::Type, None), &mut out);
    if !field_levels(t) {
        return out; // Deref: type level only, no default field bounds
    }
    // a type-level default value: `default()` returns it, no variant or field is constructed
    if dvalue == 2 && t == "Default" {
        return out;
    }
    // the probed field's comparator selection (comparison family only)
    let (cut, probed_used) = match (tr, key_on) {
        (Some(tr), Some(k)) => {
            let arg = if key_by { Arg::By } else { Arg::Key };
            let mut combo = Combo::PLAIN.with(k, arg);
            if let Some(k2) = key_on2 {
                combo = combo.with(k2, arg);
            }
            match select(&combo, tr) {
                Sel::Key(a) | Sel::By(a) => (Some(a), false),
                _ => (None, true),
            }
        }
        _ => (None, true),
    };
    // a field with an explicit default value is not constructed through `Default::default()`:
    // its explicit levels still apply, its default field-type bound does not
    let probed_used = probed_used && !(dvalue == 1 && t == "Default");
    if cfg.unit_variant {
        // variant U (slots, no fields); variant B, field B.0
        let _use_u = walk(use_type, &levels(Place::Variant, None), &mut out);
        if use_type && t != "Default" {
            out.insert(Exp::Field(3));
        }
    } else if cfg.is_enum {
        // variant A (slots), fields A.0 (slots) and A.1; variant B, field B.0
        let use_a = walk(use_type, &levels(Place::Variant, None), &mut out);
        let use_a0 = walk(use_a, &levels(Place::Field, cut), &mut out);
        if use_a0 && probed_used {
            out.insert(Exp::Field(1));
        }
        if use_a && !(dtransparent && t == "Debug") {
            out.insert(Exp::Field(2));
        }
        // Default: only the default variant (A) is constructed
        if use_type && t != "Default" {
            out.insert(Exp::Field(3));
        }
    } else {
        let use_0 = walk(use_type, &levels(Place::Field, cut), &mut out);
        if use_0 && probed_used {
            out.insert(Exp::Field(1));
        }
        if use_type && !cfg.derived.iter().any(|d| !field_levels(d)) && !(dtransparent && t == "Debug") {
            out.insert(Exp::Field(2));
        }
    }
    out
}

/// Calibration: the form the trait's default bound takes on a plain field, per generated impl.
/// Returns one template per impl (token string with `§` in place of the field type).
fn calibrate(t: &str) -> Result<Vec<String>, String> {
    let item = "struct C<T>(F1<T>) where T: Decl;";
    let (_, al) = expand::expand_aligned(Entry::Attr, t, item, &[t.to_string()])?;
    let slots = match al {
        Aligned::PerTrait(s) => s,
        Aligned::Whole(m) => return Err(format!("calibration failed: {m}")),
    };
    let mut v = Vec::new();
    if let Slot::Impls(items) = &slots[0] {
        for it in items {
            if let OutItem::Impl { item, .. } = it {
                let ws = expand::where_set(item);
                let rest: Vec<&String> = ws.iter().filter(|p| p.as_str() != "T : Decl").collect();
                if t == "Deref" || t == "DerefMut" {
                    // no default bound: the form of a `Type` entry is `Ty : <trait path>`
                    let path = match t {
                        "Deref" => ": : core : : ops : : Deref",
                        _ => ": : core : : ops : : DerefMut",
                    };
                    v.push(format!("§ : {path}"));
                    continue;
                }
                if rest.len() != 1 || !rest[0].contains("F1 < T >") {
                    return Err(format!("calibration of {t}: unexpected default where-clause {ws:?}"));
                }
                v.push(rest[0].replace("F1 < T >", "§"));
            }
        }
    } else {
        return Err(format!("calibration of {t}: not accepted"));
    }
    Ok(v)
}

fn concretise(e: &BTreeSet<Exp>, template: &str) -> BTreeSet<String> {
    e.iter()
        .map(|x| match x {
            Exp::Decl => "T : Decl".to_string(),
            Exp::Pred(n) => format!("T : M{n}"),
            Exp::Ty(n) => template.replace('§', &format!("W{n} < T >")),
            Exp::TyNoParam(n) => template.replace('§', &format!("W{n} < u8 >")),
            Exp::Field(k) => template.replace('§', &format!("F{k} < T >")),
        })
        .collect()
}

/// enum configuration whose variant-level slots sit on a unit variant (no field slots)
fn make_unit_config(name: &str, derived: &[&str]) -> Config {
    let mut c = make_config(name, derived, true);
    c.slots.retain(|s| s.place != Place::Field);
    c.unit_variant = true;
    c
}

pub fn configs() -> Vec<Config> {
    let mut v = Vec::new();
    for t in ["Clone", "Copy", "Debug", "Default", "PartialEq", "Eq", "PartialOrd", "Ord", "Hash"] {
        v.push(make_config(&format!("{t}/enum"), &[t], true));
        v.push(make_config(&format!("{t}/struct"), &[t], false));
    }
    for t in ["Clone", "Copy", "Debug", "Default", "PartialEq", "Ord", "Hash"] {
        v.push(make_unit_config(&format!("{t}/enum-unit-variant"), &[t]));
    }
    for t in ["Add", "Shl", "SubAssign", "Neg", "Not", "Deref", "DerefMut"] {
        v.push(make_config(&format!("{t}/struct"), &[t], false));
    }
    v.push(make_config("cmp5/enum", &["Ord", "PartialOrd", "Eq", "PartialEq", "Hash"], true));
    v.push(make_config("cmp5/struct", &["Ord", "PartialOrd", "Eq", "PartialEq", "Hash"], false));
    v.push(make_config("PartialOrd+PartialEq/enum", &["PartialOrd", "PartialEq"], true));
    v.push(make_config("Eq+PartialEq+Hash/enum", &["Eq", "PartialEq", "Hash"], true));
    v.push(make_config("basic4/enum", &["Clone", "Copy", "Debug", "Default"], true));
    v.push(make_config("basic4/struct", &["Clone", "Copy", "Debug", "Default"], false));
    v.push(make_config("ops/struct", &["Add", "AddAssign", "Neg", "Clone"], false));
    v
}

struct Plan {
    /// max number of non-absent levels over the 7-option alphabet
    max_dev: usize,
    /// configs (by name) explored with the full product over {absent, bound(P), bound(P,..)}
    full3: Vec<&'static str>,
    /// configs explored with the full 7-option product
    full6: Vec<&'static str>,
}

fn gen(ch: &mut Ch, cfgs: &[Config], plan: &Plan) -> Option<Case> {
    let ci = ch.pick(cfgs.len());
    let cfg = &cfgs[ci];
    // mode 0: deviation-bounded over 7 options; mode 1: full product over 3 options; mode 2: full 7
    let mut modes = vec![0usize];
    if plan.full3.contains(&cfg.name.as_str()) {
        modes.push(1);
    }
    if plan.full6.contains(&cfg.name.as_str()) {
        modes.push(2);
    }
    let mode = *ch.of(&modes);
    let entry = *ch.of(&Entry::BOTH);
    // key placement (comparison configs): none, or on one of the recognised helper attributes
    let cmp_helpers: Vec<Tr> = cfg.slots.iter().filter(|s| s.place == Place::Field).filter_map(|s| if let Kind::Helper(h) = &s.kind { Tr::ALL.iter().copied().find(|t| t.attr() == h) } else { None }).collect();
    let mut key_on = None;
    let mut key_on2 = None;
    let mut key_by = false;
    if !cmp_helpers.is_empty() && mode == 0 {
        let k = ch.pick(cmp_helpers.len() + 1);
        if k > 0 {
            key_on = Some(cmp_helpers[k - 1]);
            // the custom comparison written as `key = ..` or as `by = ..`
            key_by = ch.flag();
            let arg = if key_by { Arg::By } else { Arg::Key };
            // the combination must be accepted for every derived comparison trait
            let mut combo = Combo::PLAIN.with(cmp_helpers[k - 1], arg);
            // optionally a second, less specific attribute with a key of its own
            let k2 = ch.pick(cmp_helpers.len() - k + 1);
            if k2 > 0 {
                key_on2 = Some(cmp_helpers[k + k2 - 1]);
                combo = combo.with(cmp_helpers[k + k2 - 1], arg);
            }
            for d in &cfg.derived {
                if let Some(t) = Tr::from_name(d) {
                    if !refmodel::ref_accept(&combo, t) {
                        return None;
                    }
                }
            }
        }
    }
    // Default configs with field levels: the probed field with / without an explicit value
    let has_default_field = cfg.derived.iter().any(|d| d == "Default") && cfg.slots.iter().any(|s| s.place == Place::Field && s.kind == Kind::Helper("default".into()));
    let dvalue: u8 = if has_default_field && mode == 0 { ch.pick(3) as u8 } else { 0 };
    let has_debug_field = cfg.derived.iter().any(|d| d == "Debug") && cfg.slots.iter().any(|s| s.place == Place::Field && s.kind == Kind::Helper("debug".into()));
    let dtransparent = has_debug_field && mode == 0 && ch.pick(2) == 1;
    let mut opts = Vec::with_capacity(cfg.slots.len());
    let mut dev = 0;
    if mode == 0 {
        // deviation-bounded: choose how many levels are non-absent, then which (increasing
        // positions), then their options - no pruned branches
        let n = cfg.slots.len();
        // with two keys on the probed field one level less is varied
        let max_dev = if key_on2.is_some() { plan.max_dev.saturating_sub(1) } else { plan.max_dev };
        let k = ch.pick(max_dev.min(n) + 1);
        opts = vec![Opt::Absent; n];
        let mut start = 0usize;
        for j in 0..k {
            let still_needed = k - j - 1;
            let avail = n - start - still_needed;
            let p = start + ch.pick(avail);
            // quick tier: several deviations at once range over the core options, a single deviation over all of them
            opts[p] = if k >= 3 {
                *ch.of(&Opt::FOUR)
            } else if k >= 2 && plan.max_dev <= 2 {
                *ch.of(&Opt::CORE)
            } else {
                Opt::ALL[1 + ch.pick(Opt::ALL.len() - 1)]
            };
            start = p + 1;
        }
        dev = k;
    } else {
        for _ in 0..cfg.slots.len() {
            let o = match mode {
                1 => *ch.of(&Opt::THREE),
                _ => *ch.of(&Opt::ALL),
            };
            if o != Opt::Absent {
                dev += 1;
            }
            opts.push(o);
        }
    }
    // the full products repeat what the deviation-bounded mode (and, for mode 2, mode 1) covered
    if mode != 0 && dev <= plan.max_dev {
        return None;
    }
    if mode == 2 && plan.full3.contains(&cfg.name.as_str()) && opts.iter().all(|o| Opt::THREE.contains(o)) {
        return None;
    }
    let nogen = ch.pick(3) as u8;
    if nogen != 0 && !(mode == 0 && key_on.is_none() && dvalue == 0 && !dtransparent && dev <= plan.max_dev - 1) {
        return None;
    }
    let (attr, item) = render(cfg, &opts, key_on, key_on2, key_by, dvalue, dtransparent);
    let (attr, item) = (spell_param(&attr, nogen), spell_param(&item, nogen));
    Some(Case { cfg: ci, vector: ch.vector(), opts, key_on, key_on2, key_by, dvalue, dtransparent, entry, nogen, attr, item })
}

/// rewrites a text over the parameter `T` for the lifetime-only (1) / parameterless (2) variants
fn spell_param(text: &str, nogen: u8) -> String {
    if nogen == 0 {
        return text.to_string();
    }
    let (decl, ty) = if nogen == 1 { ("X<'a>", "&'a u8") } else { ("X", "u8") };
    let text = text.replace("X<T>", decl);
    let b: Vec<char> = text.chars().collect();
    let is_id = |c: char| c.is_alphanumeric() || c == '_';
    let mut out = String::new();
    for i in 0..b.len() {
        if b[i] == 'T' && (i == 0 || !is_id(b[i - 1])) && (i + 1 == b.len() || !is_id(b[i + 1])) {
            out.push_str(ty);
        } else {
            out.push(b[i]);
        }
    }
    out
}
/// the same on a flattened predicate (tokens separated by single spaces)
fn spell_param_flat(pred: &str, nogen: u8) -> String {
    if nogen == 0 {
        return pred.to_string();
    }
    let ty = expand::flat_of_str(if nogen == 1 { "&'a u8" } else { "u8" }).unwrap();
    pred.split(' ').map(|t| if t == "T" { ty.clone() } else { t.to_string() }).collect::<Vec<_>>().join(" ")
}

#[derive(Debug)]
struct Eval {
    /// per derived trait: Ok(list of (expected set, observed set) per impl) or error text
    per_trait: Vec<Result<Vec<(BTreeSet<String>, BTreeSet<String>)>, String>>,
}

fn evaluate(cfg: &Config, c: &Case, templates: &BTreeMap<String, Vec<String>>) -> Result<Eval, String> {
    let (_, al) = expand::expand_aligned(c.entry, &c.attr, &c.item, &cfg.derived)?;
    let slots = match al {
        Aligned::PerTrait(s) => s,
        Aligned::Whole(m) => return Err(format!("whole derivation failed: {m}")),
    };
    let mut per_trait = Vec::new();
    for (k, d) in cfg.derived.iter().enumerate() {
        let mut exp = ref_bounds(cfg, &c.opts, c.key_on, c.key_on2, c.key_by, c.dvalue, c.dtransparent, d);
        if c.nogen != 0 {
            // no field type mentions a type parameter: there is no default bound
            exp.retain(|e| !matches!(e, Exp::Field(_)));
        }
        // I1: whether `#[partial_eq(bound(..))]` reaches Eq's where-clause is unspecified
        if d == "Eq" && cfg.slots.iter().enumerate().any(|(i, s)| s.kind == Kind::Helper("partial_eq".into()) && c.opts[i] != Opt::Absent) {
            per_trait.push(Ok(Vec::new()));
            continue;
        }
        match &slots[k] {
            Slot::Error(m) => per_trait.push(Err(format!("unexpected error: {m}"))),
            Slot::Impls(items) => {
                let tpl = &templates[d];
                let impls: Vec<&syn::ItemImpl> = items.iter().filter_map(|i| if let OutItem::Impl { item, .. } = i { Some(item) } else { None }).collect();
                if impls.len() != tpl.len() {
                    per_trait.push(Err(format!("{} impls generated, calibration saw {}", impls.len(), tpl.len())));
                    continue;
                }
                let mut v = Vec::new();
                for (im, t) in impls.iter().zip(tpl.iter()) {
                    v.push((concretise(&exp, t).into_iter().map(|p| spell_param_flat(&p, c.nogen)).collect(), expand::where_set(im)));
                }
                per_trait.push(Ok(v));
            }
        }
    }
    Ok(Eval { per_trait })
}

fn describe(cfg: &Config, c: &Case) -> String {
    let mut v = Vec::new();
    for (i, o) in c.opts.iter().enumerate() {
        if *o != Opt::Absent {
            v.push(format!("{}={}", cfg.slots[i].label(), o.short()));
        }
    }
    if let Some(k) = c.key_on {
        v.push(format!("field:#[{}({})]", k.attr(), if c.key_by { "by" } else { "key" }));
    }
    if let Some(k) = c.key_on2 {
        v.push(format!("field:#[{}({})]", k.attr(), if c.key_by { "by" } else { "key" }));
    }
    if c.dvalue != 0 {
        v.push(if c.dvalue == 2 { "type:#[default(value)]" } else { "field:#[default(value)]" }.into());
    }
    if c.dtransparent {
        v.push("field:#[debug(transparent)]".into());
    }
    if c.nogen != 0 {
        v.push(["", "item-with-lifetime-parameter-only", "item-without-parameters"][c.nogen as usize].into());
    }
    format!("[{}] {}", cfg.name, v.join(" "))
}

pub fn run(ctx: &Ctx, rep: &mut Report) {
    let thorough = ctx.tier.is_thorough();
    rep.rule = "terminal state = (probe configuration [derived trait set x struct/enum], entry point, optional key placement, one bound option out of {absent, bound(), bound(T: M_l), bound(..), bound(T: M_l, ..), bound(W_l<T>), bound(.., T: M_l), bound(W_l<u8>)} per priority level; Default configurations also with an explicit value on the probed field, Debug configurations also with #[debug(transparent)] on it incl. one slot per recognised comparison helper attribute at each placement); bounded by the number of non-absent levels (quick: one level over all eight spellings, two over the six core options; thorough: one or two levels over all eight spellings, three over {bound(), bound(P), bound(P, ..), bound(Type)}), plus full products over {absent, bound(P), bound(P, ..)} for the small configurations; distinct by program text; non-trivial = at least one level non-absent".into();
    rep.assumptions = vec![
        "reference ref_bounds of DESIGN.md 5/C04 (from doc/derive_ex.md 'Specify trait bound'); interpretations I1, I5 (sets of predicates)".into(),
        "the textual form of a default / Type bound is calibrated per trait on `struct C<T>(F1<T>)`; its semantic adequacy is C03's business".into(),
    ];
    let cfgs = configs();
    let plan = if thorough {
        Plan { max_dev: 3, full3: vec!["Clone/enum", "Copy/enum", "Clone/struct", "Copy/struct", "Debug/struct", "Default/struct", "Debug/enum", "Default/enum", "Add/struct", "Shl/struct", "SubAssign/struct", "Neg/struct", "Not/struct", "Deref/struct", "DerefMut/struct", "Ord/struct", "Ord/enum", "PartialOrd/struct", "Eq/struct", "Hash/struct"], full6: vec!["Clone/enum", "Copy/enum", "Clone/struct", "Add/struct", "Neg/struct", "Deref/struct", "Debug/struct", "Default/struct", "Ord/struct"] }
    } else {
        Plan { max_dev: 2, full3: vec!["Clone/enum", "Copy/enum", "Debug/struct", "Default/struct", "Debug/enum", "Default/enum", "Add/struct", "Neg/struct", "Ord/struct"], full6: vec!["Clone/struct", "Deref/struct"] }
    };
    let mut templates: BTreeMap<String, Vec<String>> = BTreeMap::new();
    for c in &cfgs {
        for d in &c.derived {
            if !templates.contains_key(d) {
                match calibrate(d) {
                    Ok(t) => {
                        templates.insert(d.clone(), t);
                    }
                    Err(e) => crate::report::machinery(&format!("C04 calibration: {e}")),
                }
            }
        }
    }
    let _ = enum_capable;
    let mut cases: Vec<Case> = Vec::new();
    if let Some(p) = &ctx.replay {
        let v: serde_json::Value = serde_json::from_str(&std::fs::read_to_string(p).expect("replay file")).expect("replay json");
        let cs = &v["case"];
        let ci = cfgs.iter().position(|c| c.name == cs["config"].as_str().unwrap_or("")).unwrap_or_else(|| crate::report::machinery("replay: unknown configuration"));
        let opts: Vec<Opt> = cs["opts"].as_array().unwrap().iter().map(|x| Opt::ALL[x.as_u64().unwrap() as usize]).collect();
        let key_on = cs["key_on"].as_str().and_then(|k| Tr::ALL.iter().copied().find(|t| t.attr() == k));
        let entry = if cs["entry"] == "derive" { Entry::Derive } else { Entry::Attr };
        let dvalue = cs["dvalue"].as_u64().unwrap_or(0) as u8;
        let key_on2 = cs["key_on2"].as_str().and_then(|k| Tr::ALL.iter().copied().find(|t| t.attr() == k));
        let dtransparent = cs["dtransparent"].as_bool().unwrap_or(false);
        let nogen = cs["nogen"].as_u64().unwrap_or(0) as u8;
        let key_by = cs["key_by"].as_bool().unwrap_or(false);
        let (attr, item) = render(&cfgs[ci], &opts, key_on, key_on2, key_by, dvalue, dtransparent);
        let (attr, item) = (spell_param(&attr, nogen), spell_param(&item, nogen));
        let c = Case { cfg: ci, vector: vec![], opts, key_on, key_on2, key_by, dvalue, dtransparent, entry, nogen, attr, item };
        let a = format!("{:?}", evaluate(&cfgs[ci], &c, &templates));
        let b = format!("{:?}", evaluate(&cfgs[ci], &c, &templates));
        assert_eq!(a, b, "replay observations differ between two runs");
        cases.push(c);
    }
    // Evaluate in chunks: the thorough tier has ~10^7 terminal states, which are generated,
    // expanded, judged and dropped chunk by chunk (only counters and violations are kept).
    let mut distinct_where: BTreeSet<String> = BTreeSet::new();
    let mut conform_inputs: Vec<crate::conform::Input> = Vec::new();
    let mut process = |rep: &mut Report, cases: &Vec<Case>, distinct_where: &mut BTreeSet<String>, conform_inputs: &mut Vec<crate::conform::Input>| {
    let evals = par_map(cases, threads(), |_, c| evaluate(&cfgs[c.cfg], c, &templates));
    for c in cases.iter() {
        if c.opts.iter().filter(|o| **o != Opt::Absent).count() <= 1 && c.key_on.is_none() && c.dvalue == 0 && !c.dtransparent {
            conform_inputs.push(crate::conform::Input { entry: c.entry, attr: c.attr.clone(), item: c.item.clone() });
        }
    }
    for (c, e) in cases.iter().zip(evals.iter()) {
        let cfg = &cfgs[c.cfg];
        let text = format!("{} #[derive_ex({})] {}", c.entry.name(), c.attr, c.item);
        let dev = c.opts.iter().filter(|o| **o != Opt::Absent).count();
        rep.case(&text, dev > 0);
        let mk_atoms = |t: Option<&str>| {
            let mut a = BTreeSet::new();
            a.insert(format!("config={}", cfg.name));
            a.insert(format!("entry={}", c.entry.name()));
            if let Some(t) = t {
                a.insert(format!("trait={t}"));
            }
            for (i, o) in c.opts.iter().enumerate() {
                if *o != Opt::Absent {
                    a.insert(format!("level={}", cfg.slots[i].label()));
                    a.insert(format!("{}={}", cfg.slots[i].label(), o.short()));
                }
            }
            if let Some(k) = c.key_on {
                a.insert(format!("key_on={}", k.attr()));
            }
            if let Some(k) = c.key_on2 {
                a.insert(format!("key_on={}", k.attr()));
            }
            if c.dvalue != 0 {
                a.insert("default_value_on_field".into());
            }
            if c.dtransparent {
                a.insert("debug_transparent_on_field".into());
            }
            a
        };
        match e {
            Err(m) => rep.violation(Violation {
                symptom: "expansion-failed".into(),
                atoms: mk_atoms(None),
                what: format!("{}: {}", describe(cfg, c), first_line(m)),
                detail: json!({"vector": c.vector, "config": cfg.name, "opts": c.opts.iter().map(|o| Opt::ALL.iter().position(|x| x == o).unwrap()).collect::<Vec<_>>(), "key_on": c.key_on.map(|k| k.attr()), "key_by": c.key_by, "key_on2": c.key_on2.map(|k| k.attr()), "dvalue": c.dvalue, "dtransparent": c.dtransparent, "nogen": c.nogen, "entry": c.entry.name(), "attr": c.attr, "item": c.item, "observed": m}),
                standalone: None,
            }),
            Ok(ev) => {
                for (k, d) in cfg.derived.iter().enumerate() {
                    match &ev.per_trait[k] {
                        Err(m) => rep.violation(Violation {
                            symptom: "trait-not-generated".into(),
                            atoms: mk_atoms(Some(d)),
                            what: format!("{} trait {}: {}", describe(cfg, c), d, first_line(m)),
                            detail: json!({"vector": c.vector, "config": cfg.name, "opts": c.opts.iter().map(|o| Opt::ALL.iter().position(|x| x == o).unwrap()).collect::<Vec<_>>(), "key_on": c.key_on.map(|k| k.attr()), "key_by": c.key_by, "key_on2": c.key_on2.map(|k| k.attr()), "dvalue": c.dvalue, "dtransparent": c.dtransparent, "nogen": c.nogen, "entry": c.entry.name(), "attr": c.attr, "item": c.item, "trait": d, "observed": m}),
                            standalone: None,
                        }),
                        Ok(v) => {
                            for (n, (exp, got)) in v.iter().enumerate() {
                                distinct_where.insert(got.iter().cloned().collect::<Vec<_>>().join(" ; "));
                                if exp != got {
                                    let missing: Vec<&String> = exp.difference(got).collect();
                                    let extra: Vec<&String> = got.difference(exp).collect();
                                    rep.violation(Violation {
                                        symptom: "where-clause-differs-from-priority-rule".into(),
                                        atoms: mk_atoms(Some(d)),
                                        what: format!("{} impl #{} of {}: missing {:?}, unexpected {:?}", describe(cfg, c), n, d, missing, extra),
                                        detail: json!({"vector": c.vector, "config": cfg.name, "opts": c.opts.iter().map(|o| Opt::ALL.iter().position(|x| x == o).unwrap()).collect::<Vec<_>>(), "key_on": c.key_on.map(|k| k.attr()), "key_by": c.key_by, "key_on2": c.key_on2.map(|k| k.attr()), "dvalue": c.dvalue, "dtransparent": c.dtransparent, "nogen": c.nogen, "entry": c.entry.name(), "attr": c.attr, "item": c.item, "trait": d, "impl_index": n, "expected_where": exp, "observed_where": got}),
                                        standalone: None,
                                    });
                                }
                            }
                        }
                    }
                }
                if rep.samples.len() < 4 && dev >= 2 {
                    rep.sample(json!({"config": cfg.name, "entry": c.entry.name(), "attr": c.attr, "item": c.item, "expected_where_per_trait": cfg.derived.iter().zip(ev.per_trait.iter()).map(|(d, r)| (d.clone(), r.as_ref().ok().map(|v| v.iter().map(|x| x.0.clone()).collect::<Vec<_>>()))).collect::<Vec<_>>() }));
                }
            }
        }
    }
    };
    if ctx.replay.is_some() {
        process(rep, &cases, &mut distinct_where, &mut conform_inputs);
    } else {
        if std::env::var("DX_COUNT_ONLY").is_ok() {
            // sizing aid: number of terminal states of this tier without evaluating them
            let mut n = 0u64;
            let st = explore(|ch| gen(ch, &cfgs, &plan), |_, _c: Case| n += 1);
            println!("C04 {} terminal states={} states={}", ctx.tier.name(), n, st.states);
            std::process::exit(0);
        }
        let mut buf: Vec<Case> = Vec::new();
        let mut pending: Vec<Vec<Case>> = Vec::new();
        let st = explore(|ch| gen(ch, &cfgs, &plan), |_, c| {
            buf.push(c);
            if buf.len() >= 250_000 {
                pending.push(std::mem::take(&mut buf));
            }
            // chunks are processed as soon as they are complete
            while let Some(chunk) = pending.pop() {
                process(rep, &chunk, &mut distinct_where, &mut conform_inputs);
            }
        });
        rep.stats.add(&st);
        process(rep, &buf, &mut distinct_where, &mut conform_inputs);
    }
    rep.set("distinct_where_sets_observed", json!(distinct_where.len()));
    rep.set("configurations", json!(cfgs.iter().map(|c| format!("{} ({} levels)", c.name, c.slots.len())).collect::<Vec<_>>()));
    rep.set("max_non_absent_levels", json!(plan.max_dev));
    rep.outcome_n("distinct_where_sets", distinct_where.len() as u64);
    if ctx.replay.is_none() {
        // the complete "<= 1 non-absent level" slice through the real pipeline
        crate::conform::validate_or_die(rep, "c04p", &conform_inputs);
    }
}
