//! Seed items shared by the E-channel checks C14, C15, C16, C19: generator output and the
//! corpus (every derive_ex item of the repository's test-suite and documentation).

use crate::expand::{flat_str, lex, Entry};
use crate::gen::*;
use crate::refmodel::*;
use crate::report::repo;
use proc_macro2::{TokenStream, TokenTree};
use quote::ToTokens;

#[derive(Clone, Debug)]
pub struct Seed {
    /// where it comes from (generator name or file)
    pub origin: String,
    /// argument tokens of the `derive_ex(..)` list
    pub attr: String,
    /// trait names in listing order (empty if the list could not be understood)
    pub traits: Vec<String>,
    /// the item without the leading derive_ex attribute
    pub item: String,
    /// how the corpus used it
    pub entry: Entry,
    pub is_impl: bool,
}

/// split a token stream at top-level commas
pub fn split_commas(ts: TokenStream) -> Vec<TokenStream> {
    let mut out = Vec::new();
    let mut cur = TokenStream::new();
    let mut any = false;
    for t in ts {
        if let TokenTree::Punct(p) = &t {
            if p.as_char() == ',' {
                out.push(std::mem::take(&mut cur));
                any = false;
                continue;
            }
        }
        cur.extend(std::iter::once(t));
        any = true;
    }
    if any {
        out.push(cur);
    }
    out
}

/// trait names of a derive_ex argument list (`bound(..)` / `dump` skipped)
pub fn traits_of_attr(attr: &str) -> Vec<String> {
    let mut v = Vec::new();
    if let Ok(ts) = lex(attr) {
        for piece in split_commas(ts) {
            if let Some(TokenTree::Ident(i)) = piece.into_iter().next() {
                let s = i.to_string();
                if s != "bound" && s != "dump" {
                    v.push(s);
                }
            }
        }
    }
    v
}

fn seed(origin: &str, attr: &str, item: &str) -> Seed {
    Seed { origin: origin.into(), attr: attr.into(), traits: traits_of_attr(attr), item: item.into(), entry: Entry::Attr, is_impl: false }
}

pub fn generated_seeds(thorough: bool) -> Vec<Seed> {
    let mut v = Vec::new();
    let five = "Ord, PartialOrd, Eq, PartialEq, Hash";
    // comparison family: accepted combinations with few attributes
    let lists: Vec<(&str, Vec<Tr>)> = vec![(five, vec![Ord, PartialOrd, Eq, PartialEq, Hash]), ("PartialEq", vec![PartialEq]), ("PartialOrd, PartialEq", vec![PartialOrd, PartialEq]), ("Hash", vec![Hash]), ("Eq, PartialEq, Hash", vec![Eq, PartialEq, Hash]), ("PartialEq, Eq, PartialOrd, Ord", vec![PartialEq, Eq, PartialOrd, Ord]), ("PartialOrd", vec![PartialOrd]), ("Eq", vec![Eq]), ("Ord", vec![Ord])];
    let max_set = if thorough { 2 } else { 1 };
    for (attr, derived) in &lists {
        for combo in Combo::all() {
            if combo.n_set() > max_set || !combo.uses_only_recognised(derived) {
                continue;
            }
            if !derived.iter().all(|&t| ref_accept(&combo, t)) {
                continue;
            }
            for (cont, ctx) in [(Container::NamedStruct, Ctx::LastOf2), (Container::EnumTupleVariant, Ctx::FirstOf2)] {
                if !thorough && combo.n_set() == 1 && cont == Container::EnumTupleVariant && derived.len() < 5 {
                    continue;
                }
                let it = single_field_item(cont, ctx, "V", &combo_attrs(&combo, KeyStyle::Distinct, KeyForm::Method), "");
                v.push(seed(&format!("gen:cmp:{}", combo.describe()), attr, &it.print()));
            }
        }
    }
    // two attributes on one field, one with a function and one with a key (which of them `==` really uses decides
    // what the hidden Eq assertion checks)
    for (attr, derived) in &lists {
        if !derived.contains(&Eq) {
            continue;
        }
        for combo in Combo::all() {
            let set: Vec<Arg> = Tr::ALL.iter().map(|&t| combo.get(t)).filter(|a| *a != Arg::None).collect();
            if set.len() != 2 || !set.iter().all(|a| matches!(a, Arg::Key | Arg::By)) || (set[0] == Arg::By && set[1] == Arg::By) || !combo.uses_only_recognised(derived) {
                continue;
            }
            if !derived.iter().all(|&t| ref_accept(&combo, t)) {
                continue;
            }
            let it = single_field_item(Container::NamedStruct, Ctx::LastOf2, "V", &combo_attrs(&combo, KeyStyle::Distinct, KeyForm::Method), "");
            v.push(seed(&format!("gen:cmp2:{}", combo.describe()), attr, &it.print()));
        }
    }
    // comparison functions written as closures
    v.push(seed("gen:cmp-closure", "PartialEq", "struct X(#[partial_eq(by = |a: &u8, b: &u8| a == b)] u8, u8);"));
    v.push(seed("gen:cmp-closure", "Ord, PartialOrd, Eq, PartialEq", "struct X { #[ord(by = |a: &f64, b: &f64| a.total_cmp(b), reverse)] a: f64, b: u8 }"));
    v.push(seed("gen:cmp-closure", "Hash, PartialEq", "enum X { A(#[hash(by = |a: &u8, s| ::core::hash::Hash::hash(&(*a / 2), s))] #[partial_eq(by = |a: &u8, b: &u8| a / 2 == b / 2)] u8), B }"));
    v.push(seed("gen:cmp-literal", "PartialEq, Hash", "struct X(#[eq(key = $.len() + \" :: \".len() + \":::\".len())] String);"));
    // one trait of the list cannot be generated: the others (and their dumps) are not disturbed
    for (attr, item) in [("Clone, Deref", "struct X(u8, u8);"), ("Default, Clone", "enum X { A, B }"), ("Clone, Debug", "struct X(#[debug(transparent)] u8, #[debug(transparent)] u8);"), ("Ord, PartialOrd, Eq, PartialEq", "struct X(#[partial_ord(reverse)] u8);"), ("Clone, Add", "enum X { A(u8), B }"), ("Debug, Deref, Clone", "enum X { A(u8) }"), ("Neg, PartialEq", "enum X { A, B }")] {
        v.push(seed("gen:failing-sibling", attr, item));
    }
    // user impls whose header has anonymous lifetimes (in the self type, in Rhs, in both, nested references)
    for (attr, item) in [("Sub, SubAssign", "impl ::core::ops::Sub<W<'_>> for W<'_> { type Output = u32; fn sub(self, r: W<'_>) -> u32 { self.1 + r.1 } }"), ("Sub", "impl ::core::ops::SubAssign<&'_ u32> for W<'_> { fn sub_assign(&mut self, r: &u32) { self.1 += *r; } }"), ("Add", "impl ::core::ops::Add<G<&u8>> for G<fn(&'_ u8) -> &'_ u8> { type Output = u8; fn add(self, r: G<&u8>) -> u8 { *(self.0)(r.0) } }"), ("Shl, ShlAssign", "impl<T: Clone> ::core::ops::Shl<u8> for &W2<'_, T> where Self: Weight { type Output = u8; fn shl(self, r: u8) -> u8 { r } }")] {
        let mut sd = seed("gen:impl-anonymous-lifetimes", attr, item);
        sd.is_impl = true;
        v.push(sd);
    }
    // macro_rules! fragments inside field types (`__FRAG(..)` = the tokens inside an invisible group)
    v.push(seed("gen:fragment-in-field-type", "Clone, Debug, PartialEq", "struct X<T>([T; __FRAG(1 + 2) * 2], &'static __FRAG(dyn ::core::fmt::Debug + Send));"));
    v.push(seed("gen:fragment-in-field-type", "Clone, Hash", "enum X<T> { A, B { q0: [T; __FRAG(1 + 2) as usize], _q0: *const __FRAG(dyn ::core::fmt::Debug + 'static) } }"));
    // generic comparison with bounds
    v.push(seed("gen:cmp-bound", "PartialEq, PartialOrd, bound(T: Copy, ..)", "#[partial_ord(bound(T: PartialOrd))] struct X<T>(#[partial_eq(bound(..))] T, Option<T>);"));
    v.push(seed("gen:cmp-bound-enum", "Eq, PartialEq, Hash", "#[eq(bound(T: Eq))] enum X<T> { #[derive_ex(Hash(bound(T: ::core::hash::Hash)))] A(T), #[hash(bound(..))] B { #[eq(key = $.len())] x: Vec<T> } }"));
    // Debug
    for item in ["struct X;", "struct X(u8, #[debug(ignore)] i32);", "struct X { a: u8, #[debug(ignore)] b: i32, c: f32 }", "struct X<T>(#[debug(transparent)] T, u8);", "enum X { A, B(#[debug(ignore)] u8, u8), C { #[debug(transparent)] x: u8 } }", "#[debug(bound(T: ::core::fmt::Debug))] enum X<T> { A(T), #[debug(bound(..))] B { t: Option<T> } }"] {
        v.push(seed("gen:debug", "Debug", item));
    }
    // Default
    for item in ["struct X { #[default(\"a :: b:::c ::\")] s: String, #[default(':')] t: char }", "struct X { #[default(\"a  b\\tc   d\")] s: String, #[default(' ')] t: char }", "struct X;", "struct X(#[default(5)] u8, i32);", "struct X { #[default(\"abc\")] a: String, b: i32 }", "#[default(X(1, 2))] struct X(u8, i32);", "enum X { A, #[default] B(u8), C }", "enum X { A { x: u8 } }", "#[default(Self::C)] enum X { A, B(u8), C }", "#[default(_, bound(T))] struct X<T>(Box<T>);", "enum X<T> { A, #[default(_, bound(T: Default))] B { #[default(_, bound(..))] t: T } }"] {
        v.push(seed("gen:default", "Default", item));
    }
    // Clone / Copy / mixed lists with bounds
    for (attr, item) in [
        ("Clone", "struct X(String);"),
        ("Clone, Copy", "struct X<T>(::core::marker::PhantomData<T>);"),
        ("Copy, Clone, Debug, Default", "enum X<T> { #[default] A(T), B { x: Option<T> } }"),
        ("Clone(bound(T)), Default, bound(T: Copy, ..)", "struct X<T>(Box<T>);"),
        ("Clone, Debug, Default, bound()", "struct X<T>(::core::marker::PhantomData<T>);"),
        ("Clone, Debug", "enum X<T: Clone, const N: usize> where T: Copy { A([T; N]), #[derive_ex(Clone(bound(T: Copy)), bound(..))] B { #[derive_ex(Debug, bound())] x: T } }"),
        ("Clone, PartialEq, Debug, Default, Hash", "struct X<'a, T> { #[eq(key = $.len())] #[debug(ignore)] a: &'a [T], #[default(7)] b: u8 }"),
        ("Deref, DerefMut", "struct X(Vec<u8>);"),
        ("Deref", "struct X<T> { t: Box<T> }"),
        ("Add, AddAssign, Neg, Not", "struct X(u8, u8);"),
        ("Sub, Mul(bound(T: Copy, ..)), bound(..)", "struct X<T> { a: T, #[derive_ex(Sub(bound(T: ::core::ops::Sub<Output = T>)))] b: T }"),
        ("BitAnd, BitOrAssign, Shl", "struct X;"),
    ] {
        v.push(seed("gen:mixed", attr, item));
    }
    // every pair of the basic traits (and the full list) on plain items: co-derived-set independence
    let basic = ["Copy", "Clone", "Debug", "Default", "PartialEq", "Eq", "PartialOrd", "Ord", "Hash"];
    let plain_items = ["struct X(u8, u16);", "struct X<T> { a: T, b: Option<T> }", "enum X { #[default] A, B(u8), C { x: u16 } }", "enum X<T> { #[default] A, B(T) }"];
    for (ii, item) in plain_items.iter().enumerate() {
        for i in 0..basic.len() {
            for j in (i + 1)..basic.len() {
                if !thorough && ii >= 2 && !(i < 2 || j < 4) {
                    continue;
                }
                let needs_default = basic[i] == "Default" || basic[j] == "Default";
                let it = if needs_default { item.to_string() } else { item.replace("#[default] ", "") };
                v.push(seed("gen:pairs", &format!("{}, {}", basic[i], basic[j]), &it));
            }
        }
        v.push(seed("gen:pairs", &basic.join(", "), item));
    }
    // user impls
    for (attr, item) in [
        ("Add, AddAssign", "impl ::core::ops::Add for X { type Output = X; fn add(self, rhs: Self) -> X { X(self.0 + rhs.0) } }"),
        ("Sub", "impl<T: Clone> ::core::ops::Sub<&Y<T>> for &X<T> where T: Default { type Output = X<T>; fn sub(self, rhs: &Y<T>) -> X<T> { todo!() } }"),
        ("MulAssign", "impl ::core::ops::Mul<u8> for X { type Output = Self; fn mul(self, rhs: u8) -> Self { self } }"),
        ("Shl", "impl ::core::ops::ShlAssign<&X> for X { fn shl_assign(&mut self, rhs: &X) {} }"),
    ] {
        let mut s = seed("gen:impl", attr, item);
        s.is_impl = true;
        v.push(s);
    }
    v
}

// ---------------------------------------------------------------------------------------
// corpus
// ---------------------------------------------------------------------------------------

struct Collector {
    origin: String,
    out: Vec<Seed>,
}

fn take_derive_ex(attrs: &mut Vec<syn::Attribute>) -> Option<(String, Entry)> {
    // attribute-macro use: the FIRST `#[derive_ex(..)]` is the macro invocation
    let has_derive_ex_derive = attrs.iter().any(|a| a.path().is_ident("derive") && a.to_token_stream().to_string().contains("Ex"));
    if has_derive_ex_derive {
        // derive-macro use: drop `Ex` from the derive list, keep derive_ex attributes on the item
        for a in attrs.iter_mut() {
            if a.path().is_ident("derive") {
                if let syn::Meta::List(l) = &a.meta {
                    let kept: Vec<TokenStream> = split_commas(l.tokens.clone()).into_iter().filter(|p| { let s = p.to_string(); !(s == "Ex" || s.ends_with(":: Ex")) }).collect();
                    let toks = quote::quote!(#(#kept),*);
                    *a = syn::parse_quote!(#[derive(#toks)]);
                }
            }
        }
        attrs.retain(|a| !(a.path().is_ident("derive") && matches!(&a.meta, syn::Meta::List(l) if l.tokens.is_empty())));
        return Some((String::new(), Entry::Derive));
    }
    let pos = attrs.iter().position(|a| a.path().is_ident("derive_ex") || a.path().segments.last().map(|s| s.ident == "derive_ex").unwrap_or(false))?;
    let a = attrs.remove(pos);
    let args = match &a.meta {
        syn::Meta::List(l) => l.tokens.to_string(),
        _ => String::new(),
    };
    Some((args, Entry::Attr))
}

impl<'ast> syn::visit::Visit<'ast> for Collector {
    fn visit_item_struct(&mut self, i: &'ast syn::ItemStruct) {
        let mut it = i.clone();
        if let Some((attr, entry)) = take_derive_ex(&mut it.attrs) {
            let traits = if entry == Entry::Attr { traits_of_attr(&attr) } else { Vec::new() };
            self.out.push(Seed { origin: self.origin.clone(), attr, traits, item: it.to_token_stream().to_string(), entry, is_impl: false });
        }
    }
    fn visit_item_enum(&mut self, i: &'ast syn::ItemEnum) {
        let mut it = i.clone();
        if let Some((attr, entry)) = take_derive_ex(&mut it.attrs) {
            let traits = if entry == Entry::Attr { traits_of_attr(&attr) } else { Vec::new() };
            self.out.push(Seed { origin: self.origin.clone(), attr, traits, item: it.to_token_stream().to_string(), entry, is_impl: false });
        }
    }
    fn visit_item_impl(&mut self, i: &'ast syn::ItemImpl) {
        let mut it = i.clone();
        if let Some((attr, entry)) = take_derive_ex(&mut it.attrs) {
            if entry == Entry::Attr {
                self.out.push(Seed { origin: self.origin.clone(), traits: traits_of_attr(&attr), attr, item: it.to_token_stream().to_string(), entry, is_impl: true });
            }
        }
        syn::visit::visit_item_impl(self, i);
    }
}

/// Every struct / enum / impl carrying derive_ex in derive-ex-tests/tests/*.rs and in the
/// ```rust blocks of doc/derive_ex.md, extracted from the current tree.
pub fn corpus_seeds() -> Vec<Seed> {
    use syn::visit::Visit;
    let mut out = Vec::new();
    let tests = repo().join("derive-ex-tests").join("tests");
    let mut files: Vec<std::path::PathBuf> = std::fs::read_dir(&tests).map(|d| d.filter_map(|e| e.ok()).map(|e| e.path()).filter(|p| p.extension().map(|x| x == "rs").unwrap_or(false)).collect()).unwrap_or_default();
    files.sort();
    for f in files {
        if let Ok(txt) = std::fs::read_to_string(&f) {
            if let Ok(file) = syn::parse_file(&txt) {
                let mut c = Collector { origin: format!("tests/{}", f.file_name().unwrap().to_string_lossy()), out: Vec::new() };
                c.visit_file(&file);
                out.extend(c.out);
            }
        }
    }
    // documentation blocks
    if let Ok(doc) = std::fs::read_to_string(repo().join("doc").join("derive_ex.md")) {
        // 0 = outside, 1 = inside a rust block, 2 = inside another block
        let mut state = 0u8;
        let mut cur = String::new();
        let mut n = 0;
        for line in doc.lines() {
            if line.trim_start().starts_with("```") {
                match state {
                    0 => {
                        let lang = line.trim_start().trim_start_matches('`').trim();
                        state = if lang.is_empty() || lang.starts_with("rust") || lang.starts_with("compile_fail") { 1 } else { 2 };
                        cur.clear();
                    }
                    1 => {
                        n += 1;
                        let wrapped = format!("fn __doc() {{ {} }}", cur);
                        if let Ok(file) = syn::parse_file(&wrapped) {
                            let mut c = Collector { origin: format!("doc/derive_ex.md#block{n}"), out: Vec::new() };
                            c.visit_file(&file);
                            out.extend(c.out);
                        }
                        state = 0;
                    }
                    _ => state = 0,
                }
                continue;
            }
            if state == 1 {
                let l = if let Some(r) = line.strip_prefix("# ") { r } else if line == "#" { "" } else { line };
                cur.push_str(l);
                cur.push('\n');
            }
        }
    }
    out
}

/// canonical text of a seed (for de-duplication)
pub fn seed_key(s: &Seed) -> String {
    format!("{:?}|{}|{}", s.entry, lex(&s.attr).map(flat_str).unwrap_or_default(), lex(&s.item).map(flat_str).unwrap_or_default())
}

pub fn all_seeds(thorough: bool) -> Vec<Seed> {
    let mut v = generated_seeds(thorough);
    v.extend(corpus_seeds());
    let mut seen = std::collections::BTreeSet::new();
    v.retain(|s| seen.insert(seed_key(s)));
    v
}
