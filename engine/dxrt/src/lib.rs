//! Run-time support linked into generated programs (channel X): small value types with
//! known semantics, distinguishable key / by functions, call-recording types.
//! No dependencies, so generated crates can link it with a bare `--extern dxrt=...`.

use core::cmp::Ordering;
use core::hash::{Hash, Hasher};
use std::cell::RefCell;

// ------------------------------------------------------------------------------------
// V: totally ordered value 0..6 with five distinguishable projections
// ------------------------------------------------------------------------------------

#[derive(Clone, Copy, Debug, PartialEq, Eq, PartialOrd, Ord, Hash, Default)]
pub struct V(pub u8);

/// INHERENT methods named like the comparison-trait methods, giving wrong answers: generated code that compares or
/// hashes a field in method syntax (`a.cmp(&b)`) instead of through the trait path would pick these up
impl V {
    pub fn cmp(&self, _: &Self) -> Ordering {
        Ordering::Less
    }
    pub fn partial_cmp(&self, _: &Self) -> Option<Ordering> {
        None
    }
    pub fn eq(&self, _: &Self) -> bool {
        false
    }
    pub fn ne(&self, _: &Self) -> bool {
        false
    }
    pub fn hash<H>(&self, _: &mut H) {}
}
impl V {
    pub fn k_ord(&self) -> u8 {
        self.0 % 2
    }
    /// partially ordered key: `v % 3 == 2` is incomparable and unequal to everything (NaN-like)
    pub fn k_partial_ord(&self) -> Pv {
        Pv(self.0 % 3 + 1)
    }
    pub fn k_eq(&self) -> u8 {
        self.0 / 2
    }
    pub fn k_partial_eq(&self) -> u8 {
        self.0 / 3
    }
    pub fn k_hash(&self) -> u8 {
        5 - self.0
    }
    /// the single consistent key of C02
    pub fn k(&self) -> u8 {
        self.0 % 3
    }
    /// the single consistent PARTIAL key of C02's partial slice: class 2 is NaN-like
    pub fn kp(&self) -> Pv {
        Pv(self.0 % 3 + 1)
    }
    pub fn raw(&self) -> u8 {
        self.0
    }
}

/// the key functions of `V`, available on a type parameter declared `T: dxrt::Kt` (instantiated with `V`), so that
/// `key = $.k_ord()` / `by = dxrt::by_ord` can sit on a field whose type is a parameter of the item
pub trait Kt {
    fn v(&self) -> &V;
    fn k_ord(&self) -> u8 {
        self.v().k_ord()
    }
    fn k_partial_ord(&self) -> Pv {
        self.v().k_partial_ord()
    }
    fn k_eq(&self) -> u8 {
        self.v().k_eq()
    }
    fn k_partial_eq(&self) -> u8 {
        self.v().k_partial_eq()
    }
    fn k_hash(&self) -> u8 {
        self.v().k_hash()
    }
}
impl Kt for V {
    fn v(&self) -> &V {
        self
    }
}
pub fn by_ord<A: Kt>(a: &A, b: &A) -> Ordering {
    a.v().k_ord().cmp(&b.v().k_ord())
}
pub fn by_partial_ord<A: Kt>(a: &A, b: &A) -> Option<Ordering> {
    a.v().k_partial_ord().partial_cmp(&b.v().k_partial_ord())
}
pub fn by_eq<A: Kt>(a: &A, b: &A) -> bool {
    a.v().k_eq() == b.v().k_eq()
}
pub fn by_partial_eq<A: Kt>(a: &A, b: &A) -> bool {
    a.v().k_partial_eq() == b.v().k_partial_eq()
}
pub const BY_HASH_MARK: u8 = 0xB7;
pub fn by_hash<A: Kt, H: Hasher>(a: &A, state: &mut H) {
    state.write_u8(BY_HASH_MARK);
    a.v().k_hash().hash(state);
}

// consistent-key versions (C02)
pub fn kby_ord(a: &V, b: &V) -> Ordering {
    a.k().cmp(&b.k())
}
pub fn kby_partial_ord(a: &V, b: &V) -> Option<Ordering> {
    a.k().partial_cmp(&b.k())
}
pub fn kby_eq(a: &V, b: &V) -> bool {
    a.k() == b.k()
}
pub fn kby_hash<H: Hasher>(a: &V, state: &mut H) {
    a.k().hash(state);
}
// consistent partial versions (C02, subsets of {PartialOrd, PartialEq})
pub fn pby_partial_ord(a: &V, b: &V) -> Option<Ordering> {
    a.kp().partial_cmp(&b.kp())
}
pub fn pby_eq(a: &V, b: &V) -> bool {
    a.kp() == b.kp()
}

// ------------------------------------------------------------------------------------
// Pv: partially ordered value; raw 3 is incomparable and unequal to everything (NaN-like)
// ------------------------------------------------------------------------------------

#[derive(Clone, Copy, Debug, Default)]
pub struct Pv(pub u8);
/// `key * <expr fragment>` of `KeyForm::Fragment` on the partial key
impl core::ops::Mul<u8> for Pv {
    type Output = Pv;
    fn mul(self, r: u8) -> Pv {
        Pv(self.0 * r)
    }
}
impl Hash for Pv {
    fn hash<H: Hasher>(&self, h: &mut H) {
        h.write_u8(self.0)
    }
}
impl PartialEq for Pv {
    fn eq(&self, o: &Pv) -> bool {
        self.0 != 3 && o.0 != 3 && self.0 == o.0
    }
}
impl PartialOrd for Pv {
    fn partial_cmp(&self, o: &Pv) -> Option<Ordering> {
        if self.0 == 3 || o.0 == 3 {
            None
        } else {
            Some(self.0.cmp(&o.0))
        }
    }
}

// ------------------------------------------------------------------------------------
// Ik: key wrapper whose INHERENT methods named like the trait methods give wrong answers
// (generated code must call the traits by path, not by method syntax)
// ------------------------------------------------------------------------------------

#[derive(Clone, Copy, Debug, Default)]
pub struct Ik<T>(pub T);
impl<T> Ik<T> {
    pub fn cmp(&self, _: &Self) -> Ordering {
        Ordering::Less
    }
    pub fn partial_cmp(&self, _: &Self) -> Option<Ordering> {
        None
    }
    pub fn eq(&self, _: &Self) -> bool {
        false
    }
    pub fn ne(&self, _: &Self) -> bool {
        false
    }
    pub fn hash<H>(&self, _: &mut H) {}
}
impl<T: PartialEq> PartialEq for Ik<T> {
    fn eq(&self, o: &Self) -> bool {
        PartialEq::eq(&self.0, &o.0)
    }
}
impl<T: Eq> Eq for Ik<T> {}
impl<T: PartialOrd> PartialOrd for Ik<T> {
    fn partial_cmp(&self, o: &Self) -> Option<Ordering> {
        PartialOrd::partial_cmp(&self.0, &o.0)
    }
}
impl<T: Ord> Ord for Ik<T> {
    fn cmp(&self, o: &Self) -> Ordering {
        Ord::cmp(&self.0, &o.0)
    }
}
impl<T: Hash> Hash for Ik<T> {
    fn hash<H: Hasher>(&self, h: &mut H) {
        Hash::hash(&self.0, h)
    }
}

// ------------------------------------------------------------------------------------
// Generic wrapper mentioning a parameter
// ------------------------------------------------------------------------------------

#[derive(Clone, Copy, Debug, PartialEq, Eq, PartialOrd, Ord, Hash, Default)]
pub struct W<T>(pub T);

// ------------------------------------------------------------------------------------
// RecHasher: records the sequence of write_* calls
// ------------------------------------------------------------------------------------

#[derive(Default, Clone, Debug, PartialEq, Eq)]
pub struct RecHasher {
    pub log: String,
}
impl RecHasher {
    pub fn new() -> Self {
        Self::default()
    }
    pub fn of<T: Hash + ?Sized>(t: &T) -> String {
        let mut h = RecHasher::new();
        t.hash(&mut h);
        h.log
    }
    fn rec(&mut self, tag: &str, bytes: &[u8]) {
        self.log.push_str(tag);
        self.log.push(':');
        for b in bytes {
            self.log.push_str(&format!("{:02x}", b));
        }
        self.log.push(';');
    }
}
impl Hasher for RecHasher {
    fn finish(&self) -> u64 {
        0
    }
    fn write(&mut self, bytes: &[u8]) {
        self.rec("w", bytes)
    }
    fn write_u8(&mut self, i: u8) {
        self.rec("u8", &[i])
    }
    fn write_u16(&mut self, i: u16) {
        self.rec("u16", &i.to_le_bytes())
    }
    fn write_u32(&mut self, i: u32) {
        self.rec("u32", &i.to_le_bytes())
    }
    fn write_u64(&mut self, i: u64) {
        self.rec("u64", &i.to_le_bytes())
    }
    fn write_usize(&mut self, i: usize) {
        self.rec("usize", &(i as u64).to_le_bytes())
    }
    fn write_i8(&mut self, i: i8) {
        self.rec("i8", &i.to_le_bytes())
    }
    fn write_i16(&mut self, i: i16) {
        self.rec("i16", &i.to_le_bytes())
    }
    fn write_i32(&mut self, i: i32) {
        self.rec("i32", &i.to_le_bytes())
    }
    fn write_i64(&mut self, i: i64) {
        self.rec("i64", &i.to_le_bytes())
    }
    fn write_isize(&mut self, i: isize) {
        self.rec("isize", &(i as i64).to_le_bytes())
    }
}

// ------------------------------------------------------------------------------------
// Observation encoding helpers
// ------------------------------------------------------------------------------------

pub fn ord_ch(o: Ordering) -> char {
    match o {
        Ordering::Less => 'L',
        Ordering::Equal => 'E',
        Ordering::Greater => 'G',
    }
}
pub fn pord_ch(o: Option<Ordering>) -> char {
    match o {
        None => 'N',
        Some(o) => ord_ch(o),
    }
}
pub fn bool_ch(b: bool) -> char {
    if b {
        't'
    } else {
        'f'
    }
}

// ------------------------------------------------------------------------------------
// Call log shared by the recording types (thread local; generated programs are single
// threaded per case)
// ------------------------------------------------------------------------------------

thread_local! {
    static LOG: RefCell<Vec<String>> = RefCell::new(Vec::new());
}
pub fn log(s: String) {
    LOG.with(|l| l.borrow_mut().push(s));
}
pub fn take_log() -> Vec<String> {
    LOG.with(|l| std::mem::take(&mut *l.borrow_mut()))
}
pub fn take_log_str() -> String {
    take_log().join(",")
}

// ------------------------------------------------------------------------------------
// Rec: identity + log of clone / clone_from calls
// ------------------------------------------------------------------------------------

#[derive(Debug, PartialEq, Eq, Default)]
pub struct Rec(pub u32);
impl Clone for Rec {
    fn clone(&self) -> Rec {
        log(format!("clone({})", self.0));
        Rec(self.0)
    }
    fn clone_from(&mut self, src: &Rec) {
        log(format!("clone_from({}<-{})", self.0, src.0));
        self.0 = src.0;
    }
}

/// like `Rec`, but with INHERENT methods named `clone` / `clone_from` that do something else
#[derive(Debug, PartialEq, Eq, Default)]
pub struct RecI(pub u32);
impl RecI {
    pub fn clone(&self) -> RecI {
        log(format!("inherent-clone({})", self.0));
        RecI(9999)
    }
    pub fn clone_from(&mut self, src: &RecI) {
        log(format!("inherent-clone_from({}<-{})", self.0, src.0));
    }
}
impl Clone for RecI {
    fn clone(&self) -> RecI {
        log(format!("clone({})", self.0));
        RecI(self.0)
    }
    fn clone_from(&mut self, src: &RecI) {
        log(format!("clone_from({}<-{})", self.0, src.0));
        self.0 = src.0;
    }
}

/// Copy + call-logging Clone (for Clone derived next to Copy)
#[derive(Debug, PartialEq, Eq, Default, Copy)]
pub struct RecC(pub u32);
impl Clone for RecC {
    fn clone(&self) -> RecC {
        log(format!("clone({})", self.0));
        RecC(self.0)
    }
    fn clone_from(&mut self, src: &RecC) {
        log(format!("clone_from({}<-{})", self.0, src.0));
        self.0 = src.0;
    }
}

/// generic recorder used for `X<T>` instantiations
#[derive(Debug, PartialEq, Eq, Default)]
pub struct RecG<T>(pub u32, pub core::marker::PhantomData<T>);
impl<T> Clone for RecG<T> {
    fn clone(&self) -> Self {
        log(format!("clone({})", self.0));
        RecG(self.0, core::marker::PhantomData)
    }
    fn clone_from(&mut self, src: &Self) {
        log(format!("clone_from({}<-{})", self.0, src.0));
        self.0 = src.0;
    }
}

// ------------------------------------------------------------------------------------
// Fm: free-monoid string type implementing every operator in all reference forms
// ------------------------------------------------------------------------------------

#[derive(Debug, PartialEq, Eq, Default)]
pub struct Fm(pub String);
impl Fm {
    pub fn new(s: &str) -> Fm {
        Fm(s.to_string())
    }
}
/// Clone is implemented by hand and logged so that C09 can count operand clones.
impl Clone for Fm {
    fn clone(&self) -> Fm {
        log(format!("clone[{}]", self.0));
        Fm(self.0.clone())
    }
}

macro_rules! fm_binary {
    ($Tr:ident, $f:ident, $TrA:ident, $fa:ident, $sym:expr) => {
        impl core::ops::$Tr<Fm> for Fm {
            type Output = Fm;
            fn $f(self, r: Fm) -> Fm {
                log(format!("{}(v,v)", $sym));
                Fm(format!("({}{}{})", self.0, $sym, r.0))
            }
        }
        impl<'a> core::ops::$Tr<&'a Fm> for Fm {
            type Output = Fm;
            fn $f(self, r: &'a Fm) -> Fm {
                log(format!("{}(v,r)", $sym));
                Fm(format!("({}{}{})", self.0, $sym, r.0))
            }
        }
        impl<'a> core::ops::$Tr<Fm> for &'a Fm {
            type Output = Fm;
            fn $f(self, r: Fm) -> Fm {
                log(format!("{}(r,v)", $sym));
                Fm(format!("({}{}{})", self.0, $sym, r.0))
            }
        }
        impl<'a, 'b> core::ops::$Tr<&'b Fm> for &'a Fm {
            type Output = Fm;
            fn $f(self, r: &'b Fm) -> Fm {
                log(format!("{}(r,r)", $sym));
                Fm(format!("({}{}{})", self.0, $sym, r.0))
            }
        }
        impl core::ops::$TrA<Fm> for Fm {
            fn $fa(&mut self, r: Fm) {
                log(format!("{}=(v)", $sym));
                self.0 = format!("({}{}={})", self.0, $sym, r.0);
            }
        }
        impl<'a> core::ops::$TrA<&'a Fm> for Fm {
            fn $fa(&mut self, r: &'a Fm) {
                log(format!("{}=(r)", $sym));
                self.0 = format!("({}{}={})", self.0, $sym, r.0);
            }
        }
    };
}
fm_binary!(Add, add, AddAssign, add_assign, "+");
fm_binary!(Sub, sub, SubAssign, sub_assign, "-");
fm_binary!(Mul, mul, MulAssign, mul_assign, "*");
fm_binary!(Div, div, DivAssign, div_assign, "/");
fm_binary!(Rem, rem, RemAssign, rem_assign, "%");
fm_binary!(BitAnd, bitand, BitAndAssign, bitand_assign, "&");
fm_binary!(BitOr, bitor, BitOrAssign, bitor_assign, "|");
fm_binary!(BitXor, bitxor, BitXorAssign, bitxor_assign, "^");
fm_binary!(Shl, shl, ShlAssign, shl_assign, "<<");
fm_binary!(Shr, shr, ShrAssign, shr_assign, ">>");

macro_rules! fm_unary {
    ($Tr:ident, $f:ident, $sym:expr) => {
        impl core::ops::$Tr for Fm {
            type Output = Fm;
            fn $f(self) -> Fm {
                log(format!("{}(v)", $sym));
                Fm(format!("({}{})", $sym, self.0))
            }
        }
        impl<'a> core::ops::$Tr for &'a Fm {
            type Output = Fm;
            fn $f(self) -> Fm {
                log(format!("{}(r)", $sym));
                Fm(format!("({}{})", $sym, self.0))
            }
        }
    };
}
fm_unary!(Neg, neg, "-");
fm_unary!(Not, not, "!");

// FmN<N>: a field type that mentions only a CONST parameter and implements the operators for N = 2 only
// (a derived impl without the where-bound `FmN<N>: Op<..>` does not type-check)
#[derive(Debug, PartialEq, Eq, Default, Clone)]
pub struct FmN<const N: usize>(pub Fm);
macro_rules! fmn_binary {
    ($Tr:ident, $f:ident, $TrA:ident, $fa:ident) => {
        impl core::ops::$Tr<FmN<2>> for FmN<2> {
            type Output = FmN<2>;
            fn $f(self, r: FmN<2>) -> FmN<2> {
                FmN(core::ops::$Tr::$f(self.0, r.0))
            }
        }
        impl<'a> core::ops::$Tr<&'a FmN<2>> for FmN<2> {
            type Output = FmN<2>;
            fn $f(self, r: &'a FmN<2>) -> FmN<2> {
                FmN(core::ops::$Tr::$f(self.0, &r.0))
            }
        }
        impl<'a> core::ops::$Tr<FmN<2>> for &'a FmN<2> {
            type Output = FmN<2>;
            fn $f(self, r: FmN<2>) -> FmN<2> {
                FmN(core::ops::$Tr::$f(&self.0, r.0))
            }
        }
        impl<'a, 'b> core::ops::$Tr<&'b FmN<2>> for &'a FmN<2> {
            type Output = FmN<2>;
            fn $f(self, r: &'b FmN<2>) -> FmN<2> {
                FmN(core::ops::$Tr::$f(&self.0, &r.0))
            }
        }
        impl core::ops::$TrA<FmN<2>> for FmN<2> {
            fn $fa(&mut self, r: FmN<2>) {
                core::ops::$TrA::$fa(&mut self.0, r.0)
            }
        }
        impl<'a> core::ops::$TrA<&'a FmN<2>> for FmN<2> {
            fn $fa(&mut self, r: &'a FmN<2>) {
                core::ops::$TrA::$fa(&mut self.0, &r.0)
            }
        }
    };
}
fmn_binary!(Add, add, AddAssign, add_assign);
fmn_binary!(Sub, sub, SubAssign, sub_assign);
fmn_binary!(Mul, mul, MulAssign, mul_assign);
fmn_binary!(Div, div, DivAssign, div_assign);
fmn_binary!(Rem, rem, RemAssign, rem_assign);
fmn_binary!(BitAnd, bitand, BitAndAssign, bitand_assign);
fmn_binary!(BitOr, bitor, BitOrAssign, bitor_assign);
fmn_binary!(BitXor, bitxor, BitXorAssign, bitxor_assign);
fmn_binary!(Shl, shl, ShlAssign, shl_assign);
fmn_binary!(Shr, shr, ShrAssign, shr_assign);
macro_rules! fmn_unary {
    ($Tr:ident, $f:ident) => {
        impl core::ops::$Tr for FmN<2> {
            type Output = FmN<2>;
            fn $f(self) -> FmN<2> {
                FmN(core::ops::$Tr::$f(self.0))
            }
        }
        impl<'a> core::ops::$Tr for &'a FmN<2> {
            type Output = FmN<2>;
            fn $f(self) -> FmN<2> {
                FmN(core::ops::$Tr::$f(&self.0))
            }
        }
    };
}
fmn_unary!(Neg, neg);
fmn_unary!(Not, not);

// ------------------------------------------------------------------------------------
// Probe machinery: does a type implement a trait?  (inherent const beats trait default)
// ------------------------------------------------------------------------------------

/// `impls!(Type: Trait)` evaluates to a `bool` at compile time.
#[macro_export]
macro_rules! impls {
    ($ty:ty : $($tr:tt)+) => {{
        #[allow(dead_code)]
        struct Probe<T: ?Sized>(::core::marker::PhantomData<T>);
        #[allow(dead_code)]
        trait Fallback { const IMPLS: bool = false; }
        impl<T: ?Sized> Fallback for Probe<T> {}
        #[allow(dead_code)]
        impl<T: ?Sized + $($tr)+> Probe<T> { const IMPLS: bool = true; }
        <Probe<$ty>>::IMPLS
    }};
}

// marker traits for C04 (bound levels); Mk<N> is implemented for nothing by default
pub trait M1 {}
pub trait M2 {}
pub trait M3 {}
pub trait M4 {}
pub trait M5 {}
pub trait M6 {}
pub trait M7 {}
pub trait M8 {}
pub trait M9 {}

/// Run one case under catch_unwind and print its observation line.
pub fn run_case(idx: usize, f: fn() -> String) {
    let _ = take_log();
    let r = std::panic::catch_unwind(f);
    match r {
        Ok(s) => println!("CASE {} OK {}", idx, s),
        Err(e) => {
            let m = if let Some(s) = e.downcast_ref::<&str>() {
                s.to_string()
            } else if let Some(s) = e.downcast_ref::<String>() {
                s.clone()
            } else {
                "?".to_string()
            };
            println!("CASE {} PANIC {}", idx, m.replace('\n', " "));
        }
    }
}

// ------------------------------------------------------------------------------------
// Probe types for C03: which instantiations does a generic impl apply to?
// ------------------------------------------------------------------------------------

pub mod probe {
    /// implements every std trait derive_ex can derive and every operator in all reference forms
    #[derive(Clone, Copy, Debug, Default, PartialEq, Eq, PartialOrd, Ord, Hash)]
    pub struct Yes;
    /// implements nothing
    pub struct No;
    /// implements the std traits and every operator in its OWNED form only (`T op T`, `T op= T`, `op T`)
    #[derive(Clone, Copy, Debug, Default, PartialEq, Eq, PartialOrd, Ord, Hash)]
    pub struct Own;
    /// implements no std trait itself, its associated type does
    pub struct AY;
    /// implements the std traits (and all operator forms) itself, its associated type implements nothing
    #[derive(Clone, Copy, Debug, Default, PartialEq, Eq, PartialOrd, Ord, Hash)]
    pub struct AN;

    pub trait Tr {
        type Assoc;
    }
    impl Tr for Yes {
        type Assoc = Yes;
    }
    impl Tr for AY {
        type Assoc = Yes;
    }
    impl Tr for AN {
        type Assoc = No;
    }
    pub trait Marker {}
    impl Marker for Yes {}
    impl Marker for Own {}
    impl Marker for AN {}

    macro_rules! all_forms {
        ($T:ident; $(($Tr:ident, $f:ident, $TrA:ident, $fa:ident)),*) => {$(
            impl core::ops::$Tr<$T> for $T { type Output = $T; fn $f(self, _: $T) -> $T { $T } }
            impl<'a> core::ops::$Tr<&'a $T> for $T { type Output = $T; fn $f(self, _: &'a $T) -> $T { $T } }
            impl<'a> core::ops::$Tr<$T> for &'a $T { type Output = $T; fn $f(self, _: $T) -> $T { $T } }
            impl<'a, 'b> core::ops::$Tr<&'b $T> for &'a $T { type Output = $T; fn $f(self, _: &'b $T) -> $T { $T } }
            impl core::ops::$TrA<$T> for $T { fn $fa(&mut self, _: $T) {} }
            impl<'a> core::ops::$TrA<&'a $T> for $T { fn $fa(&mut self, _: &'a $T) {} }
        )*};
    }
    /// like `Yes`, except that `&Tie op &Tie` exists only for two references of the SAME lifetime
    #[derive(Clone, Copy, Debug, Default, PartialEq, Eq, PartialOrd, Ord, Hash)]
    pub struct Tie;
    impl Marker for Tie {}
    macro_rules! tied_forms {
        ($T:ident; $(($Tr:ident, $f:ident, $TrA:ident, $fa:ident)),*) => {$(
            impl core::ops::$Tr<$T> for $T { type Output = $T; fn $f(self, _: $T) -> $T { $T } }
            impl<'a> core::ops::$Tr<&'a $T> for $T { type Output = $T; fn $f(self, _: &'a $T) -> $T { $T } }
            impl<'a> core::ops::$Tr<$T> for &'a $T { type Output = $T; fn $f(self, _: $T) -> $T { $T } }
            impl<'a> core::ops::$Tr<&'a $T> for &'a $T { type Output = $T; fn $f(self, _: &'a $T) -> $T { $T } }
            impl core::ops::$TrA<$T> for $T { fn $fa(&mut self, _: $T) {} }
            impl<'a> core::ops::$TrA<&'a $T> for $T { fn $fa(&mut self, _: &'a $T) {} }
        )*};
    }
    macro_rules! owned_forms {
        ($T:ident; $(($Tr:ident, $f:ident, $TrA:ident, $fa:ident)),*) => {$(
            impl core::ops::$Tr<$T> for $T { type Output = $T; fn $f(self, _: $T) -> $T { $T } }
            impl core::ops::$TrA<$T> for $T { fn $fa(&mut self, _: $T) {} }
        )*};
    }
    all_forms!(Yes; (Add, add, AddAssign, add_assign), (Sub, sub, SubAssign, sub_assign), (Mul, mul, MulAssign, mul_assign), (Div, div, DivAssign, div_assign), (Rem, rem, RemAssign, rem_assign), (BitAnd, bitand, BitAndAssign, bitand_assign), (BitOr, bitor, BitOrAssign, bitor_assign), (BitXor, bitxor, BitXorAssign, bitxor_assign), (Shl, shl, ShlAssign, shl_assign), (Shr, shr, ShrAssign, shr_assign));
    tied_forms!(Tie; (Add, add, AddAssign, add_assign), (Sub, sub, SubAssign, sub_assign), (Mul, mul, MulAssign, mul_assign), (Div, div, DivAssign, div_assign), (Rem, rem, RemAssign, rem_assign), (BitAnd, bitand, BitAndAssign, bitand_assign), (BitOr, bitor, BitOrAssign, bitor_assign), (BitXor, bitxor, BitXorAssign, bitxor_assign), (Shl, shl, ShlAssign, shl_assign), (Shr, shr, ShrAssign, shr_assign));
    all_forms!(AN; (Add, add, AddAssign, add_assign), (Sub, sub, SubAssign, sub_assign), (Mul, mul, MulAssign, mul_assign), (Div, div, DivAssign, div_assign), (Rem, rem, RemAssign, rem_assign), (BitAnd, bitand, BitAndAssign, bitand_assign), (BitOr, bitor, BitOrAssign, bitor_assign), (BitXor, bitxor, BitXorAssign, bitxor_assign), (Shl, shl, ShlAssign, shl_assign), (Shr, shr, ShrAssign, shr_assign));
    owned_forms!(Own; (Add, add, AddAssign, add_assign), (Sub, sub, SubAssign, sub_assign), (Mul, mul, MulAssign, mul_assign), (Div, div, DivAssign, div_assign), (Rem, rem, RemAssign, rem_assign), (BitAnd, bitand, BitAndAssign, bitand_assign), (BitOr, bitor, BitOrAssign, bitor_assign), (BitXor, bitxor, BitXorAssign, bitxor_assign), (Shl, shl, ShlAssign, shl_assign), (Shr, shr, ShrAssign, shr_assign));
    macro_rules! unary_all {
        ($T:ident; $(($Tr:ident, $f:ident)),*) => {$(
            impl core::ops::$Tr for $T { type Output = $T; fn $f(self) -> $T { $T } }
            impl<'a> core::ops::$Tr for &'a $T { type Output = $T; fn $f(self) -> $T { $T } }
        )*};
    }
    unary_all!(Yes; (Neg, neg), (Not, not));
    unary_all!(AN; (Neg, neg), (Not, not));
    unary_all!(Tie; (Neg, neg), (Not, not));
    impl core::ops::Neg for Own { type Output = Own; fn neg(self) -> Own { Own } }
    impl core::ops::Not for Own { type Output = Own; fn not(self) -> Own { Own } }

    /// `Tag<P>`: a zero-sized generic type that implements every derivable std trait and every operator in all
    /// reference forms for EVERY `P` (also unsized / recursive ones): lets a field type mention `Self`
    pub struct Tag<P: ?Sized>(pub core::marker::PhantomData<P>);
    impl<P: ?Sized> Clone for Tag<P> { fn clone(&self) -> Self { Tag(core::marker::PhantomData) } }
    impl<P: ?Sized> Copy for Tag<P> {}
    impl<P: ?Sized> core::fmt::Debug for Tag<P> { fn fmt(&self, f: &mut core::fmt::Formatter<'_>) -> core::fmt::Result { f.write_str("Tag") } }
    impl<P: ?Sized> Default for Tag<P> { fn default() -> Self { Tag(core::marker::PhantomData) } }
    impl<P: ?Sized> PartialEq for Tag<P> { fn eq(&self, _: &Self) -> bool { true } }
    impl<P: ?Sized> Eq for Tag<P> {}
    impl<P: ?Sized> PartialOrd for Tag<P> { fn partial_cmp(&self, _: &Self) -> Option<core::cmp::Ordering> { Some(core::cmp::Ordering::Equal) } }
    impl<P: ?Sized> Ord for Tag<P> { fn cmp(&self, _: &Self) -> core::cmp::Ordering { core::cmp::Ordering::Equal } }
    impl<P: ?Sized> core::hash::Hash for Tag<P> { fn hash<H: core::hash::Hasher>(&self, _: &mut H) {} }
    macro_rules! tag_forms {
        ($(($Tr:ident, $f:ident, $TrA:ident, $fa:ident)),*) => {$(
            impl<P: ?Sized> core::ops::$Tr<Tag<P>> for Tag<P> { type Output = Tag<P>; fn $f(self, _: Tag<P>) -> Tag<P> { self } }
            impl<'a, P: ?Sized> core::ops::$Tr<&'a Tag<P>> for Tag<P> { type Output = Tag<P>; fn $f(self, _: &'a Tag<P>) -> Tag<P> { self } }
            impl<'a, P: ?Sized> core::ops::$Tr<Tag<P>> for &'a Tag<P> { type Output = Tag<P>; fn $f(self, r: Tag<P>) -> Tag<P> { r } }
            impl<'a, 'b, P: ?Sized> core::ops::$Tr<&'b Tag<P>> for &'a Tag<P> { type Output = Tag<P>; fn $f(self, _: &'b Tag<P>) -> Tag<P> { *self } }
            impl<P: ?Sized> core::ops::$TrA<Tag<P>> for Tag<P> { fn $fa(&mut self, _: Tag<P>) {} }
            impl<'a, P: ?Sized> core::ops::$TrA<&'a Tag<P>> for Tag<P> { fn $fa(&mut self, _: &'a Tag<P>) {} }
        )*};
    }
    tag_forms!((Add, add, AddAssign, add_assign), (Sub, sub, SubAssign, sub_assign), (Mul, mul, MulAssign, mul_assign), (Div, div, DivAssign, div_assign), (Rem, rem, RemAssign, rem_assign), (BitAnd, bitand, BitAndAssign, bitand_assign), (BitOr, bitor, BitOrAssign, bitor_assign), (BitXor, bitxor, BitXorAssign, bitxor_assign), (Shl, shl, ShlAssign, shl_assign), (Shr, shr, ShrAssign, shr_assign));
    impl<P: ?Sized> core::ops::Neg for Tag<P> { type Output = Tag<P>; fn neg(self) -> Tag<P> { self } }
    impl<'a, P: ?Sized> core::ops::Neg for &'a Tag<P> { type Output = Tag<P>; fn neg(self) -> Tag<P> { *self } }
    impl<P: ?Sized> core::ops::Not for Tag<P> { type Output = Tag<P>; fn not(self) -> Tag<P> { self } }
    impl<'a, P: ?Sized> core::ops::Not for &'a Tag<P> { type Output = Tag<P>; fn not(self) -> Tag<P> { *self } }

    /// Like `Tag`, with a second parameter on which the unary operators are CONDITIONAL (`T: Clone`): a derived impl
    /// type-checks only if its where-clause names exactly the field type its body uses.
    pub struct TagC<P: ?Sized, T>(pub core::marker::PhantomData<T>, pub core::marker::PhantomData<P>);
    impl<P: ?Sized, T> Clone for TagC<P, T> { fn clone(&self) -> Self { TagC(core::marker::PhantomData, core::marker::PhantomData) } }
    impl<P: ?Sized, T> Copy for TagC<P, T> {}
    impl<P: ?Sized, T: Clone> core::ops::Neg for TagC<P, T> { type Output = TagC<P, T>; fn neg(self) -> TagC<P, T> { self } }
    impl<'a, P: ?Sized, T: Clone> core::ops::Neg for &'a TagC<P, T> { type Output = TagC<P, T>; fn neg(self) -> TagC<P, T> { *self } }
    impl<P: ?Sized, T: Clone> core::ops::Not for TagC<P, T> { type Output = TagC<P, T>; fn not(self) -> TagC<P, T> { self } }
    impl<'a, P: ?Sized, T: Clone> core::ops::Not for &'a TagC<P, T> { type Output = TagC<P, T>; fn not(self) -> TagC<P, T> { *self } }
}
