// anchor: forces cargo to build the real derive-ex proc-macro dylib
