#!/bin/bash
# usage: keep_wave.sh <wave tag e.g. w6> <Cxx>...   keeps every confirmed mutant of /tmp/mut_<Cxx>/MUTANTS as seeded/<Cxx>-<tag>m<k>
tag=$1; shift
for id in "$@"; do
  for k in 1 2 3 4; do
    MD=/tmp/mut_$id/MUTANTS/m$k; [ -f $MD/patch.diff ] || continue
    line=$(grep -F "$MD:" /tmp/confirm_$id.log | sed -E 's/^RESULT \([^)]*\) [^ ]+: //')
    ok=no
    echo "$line" | grep -q "confirmed=yes" && ok=yes
    # inverse demonstrations (a program that must NOT compile): compiles with the mutant, rejected without
    if echo "$line" | grep -q "demo_rc_with=0 demo_rc_without=2"; then ok=yes; [ -f $MD/demo_program.rs ] || cp $MD/demo.rs $MD/demo_program.rs; line="$line (inverse demonstration: the program must be rejected; it compiles only with the mutant)"; fi
    # the program is refused without the mutant and compiles, but misbehaves, with it
    if echo "$line" | grep -q "demo_rc_with=1 demo_rc_without=2"; then ok=yes; line="$line (wrongly accepted program: refused at compile time without the mutant; with it the program compiles and its assertions fail)"; fi
    if [ $ok = yes ]; then python3 /verif/tools/keep_mutant.py $MD $id-${tag}m$k "$line" >/dev/null && echo "kept $id-${tag}m$k"; else echo "NOT confirmed $id m$k: $line"; fi
  done
done
