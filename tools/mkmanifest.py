#!/usr/bin/env python3
"""Regenerate /verif/MANIFEST.json from the table below (kept in one place so the manifest
stays valid while checks are added)."""
import json, os, sys
ROOT = os.path.dirname(os.path.dirname(os.path.abspath(__file__)))

BASELINE = ("cd /repo && cargo nextest run --workspace --no-fail-fast --tool-config-file pb:/w/lib/nextest.toml "
            "--profile pb --test-threads 8 --offline")

# id -> (technique, level text, level note, design ref)
CHECKS = {}
def reg(pid, technique, text, note, ref):
    CHECKS[pid] = (technique, text, note, ref)

TB = ("Trusted base: rustc 1.95 (trait solver, JSON diagnostics with expansion spans), syn/quote/proc-macro2 "
      "(fallback mode in the in-process channel), the three mechanical line edits that turn derive-ex/src/lib.rs "
      "into an ordinary library (DESIGN.md section 2), the reference models of DESIGN.md section 4. Results hold "
      "within the stated bounds.")

exec(open(os.path.join(ROOT, "tools", "checks_table.py")).read())

props = [json.loads(l) for l in open(os.path.join(ROOT, "properties.jsonl"))]
ids = [p["id"] for p in props]
checks = []
na = []
for pid in ids:
    if pid in CHECKS:
        technique, text, note, ref = CHECKS[pid]
        checks.append({
            "property_id": pid,
            "quick_cmd": "./check %s --tier quick" % pid,
            "thorough_cmd": "./check %s --tier thorough" % pid,
            "evidence_file": "/verif/evidence/%s.json" % pid,
            "replay_cmd_template": "./check %s --replay {path}" % pid,
            "engine": "dxmc",
            "level_claimed": {"category": "model_checking", "text": text, "design_ref": ref},
            "level_note": note + " " + TB,
            "technique": technique,
        })
    else:
        na.append({"property_id": pid, "reason": NOT_YET.get(pid, "check not built yet in this round; design in DESIGN.md section 5 — not claimed until it passes on the tree and fails on its seeded mutants")})

m = {
    "version": 1,
    "setup_cmd": "./check setup",
    "hooks": {
        "guard": "none (no source hooks: the repository sources are linked in-process from a patched scratch copy, DESIGN.md section 2)",
        "enable": "nothing to enable; ./check copies derive-ex/src to /verif/.work/dxsrc, applies three asserted line edits to the copy of lib.rs and builds it as a library next to the real proc-macro dylib",
        "baseline_off_cmd": BASELINE,
        "source_commits": [],
        "add_only": True,
    },
    "engines": [
        {"name": "dxmc", "path": "engine/dxmc", "serves_properties": sorted(CHECKS.keys()),
         "kind_free_text": "hand-rolled explicit-state explorer (stateless DFS over choice vectors, BFS with seen-set for mutation graphs) + reference models + orchestrator of in-process expansion and batched rustc runs"},
        {"name": "dxrt", "path": "engine/dxrt", "serves_properties": sorted(CHECKS.keys()),
         "kind_free_text": "run-time support linked into generated programs: small value domains, distinguishable key/by functions, call-recording types, recording Hasher"},
        {"name": "dxlib", "path": "engine/dxlib", "serves_properties": sorted(CHECKS.keys()),
         "kind_free_text": "the repository's own derive-ex/src compiled as an ordinary library (in-process channel E)"},
    ],
    "checks": checks,
    "not_applicable": na,
    "notes": "All checks are bounded exhaustive explorations (model checking of a sequential pure function: every input shape / configuration / value tuple up to a stated bound against a reference model). Exit 0 = held, 1 = VIOLATION line, 2 = machinery failure. Known findings: /verif/known_findings.json.",
}
json.dump(m, open(os.path.join(ROOT, "MANIFEST.json"), "w"), indent=1)
print("MANIFEST.json: %d checks, %d not claimed" % (len(checks), len(na)))
