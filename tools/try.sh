#!/bin/bash
# usage: tools/try.sh file.rs [extra rustc args]  -> compiles file.rs against the real proc-macro dylib built by ./check setup and runs it
W=/verif/.work/target/release
SO=$(ls -t $W/deps/libderive_ex-*.so | head -1)
OUT=$(mktemp -d /tmp/try.XXXX)
f=$1; shift
rustc --edition=2021 -Cdebuginfo=0 --crate-name t --extern derive_ex=$SO --extern dxrt=$W/libdxrt.rlib -L dependency=$W/deps "$@" -o $OUT/t "$f" 2>&1 | head -${LINES_MAX:-60}
[ -x $OUT/t ] && $OUT/t; rc=$?
rm -rf $OUT; exit $rc
