#!/bin/bash
# Run every kept seeded mutant against the check of the property it breaks, WITHOUT touching /repo:
# a private copy of /verif (engine + check) is driven with VERIF_REPO=<scratch worktree of /repo HEAD>.
# usage: tools/selftest.sh [seeded dir names...]   -> writes /verif/seeded/RESULTS.md
set -u
WT=/tmp/selftest_wt; CP=/tmp/selftest_verif
HEAD=$(git -C /repo rev-parse HEAD)
git -C /repo worktree remove --force $WT 2>/dev/null; git -C /repo worktree add -q --detach $WT $HEAD || exit 2
rm -rf $CP; mkdir -p $CP; rsync -a --exclude .work --exclude .git --exclude replay /verif/ $CP/
names=("$@"); if [ ${#names[@]} -eq 0 ]; then names=($(ls /verif/seeded | grep -E '^C[0-9]+-(w[0-9])?m[0-9]+$')); fi
OUT=/verif/seeded/RESULTS.md
{ echo "# Seeded mutants vs. checks"; echo; echo "Repo HEAD $HEAD; each patch applied to a scratch worktree, the quick check of the broken property run with VERIF_REPO pointing at it (exit 1 + VIOLATION expected), then reverted; last line: the same check on the clean worktree (exit 0 expected)."; echo; echo "| mutant | check | exit | violations | first symptom |"; echo "|---|---|---|---|---|"; } > $OUT
fail=0
for n in "${names[@]}"; do
  id=${n%%-*}; p=/verif/seeded/$n/patch.diff
  git -C $WT checkout -q -- . ; if ! git -C $WT apply $p; then echo "| $n | $id | patch does not apply | | |" >> $OUT; fail=1; continue; fi
  out=$(cd $CP && VERIF_REPO=$WT ./check $id --tier quick 2>&1); rc=$?
  viol=$(echo "$out" | grep -E "^$id tier" | sed -E 's/.*violations=([0-9]+).*/\1/')
  sym=$(echo "$out" | grep -E "^  [^ ]+ ::" | head -1 | sed -E 's/^  ([^ ]+) ::.*/\1/' | cut -c1-70)
  echo "| $n | $id | $rc | $viol | $sym |" >> $OUT
  [ $rc -eq 1 ] || fail=1
  git -C $WT checkout -q -- .
done
for id in $(printf "%s\n" "${names[@]}" | sed 's/-.*//' | sort -u); do
  out=$(cd $CP && VERIF_REPO=$WT ./check $id --tier quick 2>&1); rc=$?
  echo "| (clean tree) | $id | $rc | $(echo "$out" | grep -E "^$id tier" | sed -E 's/.*violations=([0-9]+).*/\1/') | |" >> $OUT
  [ $rc -eq 0 ] || fail=1
done
git -C /repo worktree remove --force $WT; rm -rf $CP
echo "selftest done, fail=$fail"; exit $fail
