#!/bin/bash
# usage: confirm_wave.sh <Cxx>  -> /tmp/confirm_<Cxx>.log (one RESULT line per mutant)
id=$1; WT=/tmp/mut_$id; : > /tmp/confirm_$id.log
for k in 1 2 3; do
  MD=$WT/MUTANTS/m$k; [ -f $MD/patch.diff ] || continue
  /verif/tools/confirm_mutant.sh $WT $MD 2>&1 | tail -1 >> /tmp/confirm_$id.log
done
