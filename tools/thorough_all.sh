#!/bin/bash
# Runs every thorough tier once (sequentially) and prints one summary line per check:
# usage: tools/thorough_all.sh [ids...]      (VERIF_REPO may point at a snapshot of the repository)
cd "$(dirname "$0")/.." || exit 2
ids=("$@"); if [ ${#ids[@]} -eq 0 ]; then ids=($(seq -f "C%02g" 1 20)); fi
./check setup >/dev/null 2>&1 || { echo "setup failed"; exit 2; }
for id in "${ids[@]}"; do
  s=$(date +%s)
  out=$(DX_NO_EVIDENCE=${DX_NO_EVIDENCE:-} /usr/bin/time -f "maxrss_kb=%M" ./check $id --tier thorough 2>&1); rc=$?
  e=$(date +%s)
  echo "THOROUGH $id rc=$rc wall=$((e-s))s $(echo "$out" | grep -E "^maxrss_kb" | tail -1) :: $(echo "$out" | grep -E "^$id tier" | cut -c1-400)"
  echo "$out" | grep -E "VIOLATION|MACHINERY|KNOWN-FINDING" | head -5
done
