#!/bin/bash
# usage: run_mutant.sh <patch.diff> <check id>... [-- extra args]   (applies to /repo, runs checks, reverts)
set -u
P=$1; shift
cd /verif
if ! git -C /repo diff --quiet; then echo "/repo has uncommitted changes; refusing"; exit 2; fi
git -C /repo apply "$P" || { echo "patch does not apply to /repo"; exit 2; }
trap 'git -C /repo checkout -q -- .' EXIT
for id in "$@"; do
  out=$(DX_NO_EVIDENCE=1 ./check $id --tier ${TIER:-quick} 2>&1); rc=$?
  echo "MUTANT $(basename $(dirname $P))/$(basename $(dirname $(dirname $(dirname $P)))) check=$id rc=$rc :: $(echo "$out" | grep -E "^$id tier" | cut -c1-200)"
  echo "$out" | grep -E "^  [a-z-]+ ::" | head -${SHOW:-2} | cut -c1-300
done
