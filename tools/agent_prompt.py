#!/usr/bin/env python3
import json, sys
pid = sys.argv[1]
props = {json.loads(l)["id"]: json.loads(l) for l in open('/verif/properties.jsonl')}
p = props[pid]
d = "/tmp/mut_" + pid
import glob, os
avoid = []
wave = sys.argv[2] if len(sys.argv) > 2 else ""
for m in sorted(glob.glob('/verif/seeded/%s-%s/meta.json' % (pid, "*m*" if wave == "wave3" else "m*"))):
    try:
        avoid.append("- " + json.load(open(m)).get("summary", "")[:300].replace("\n", " "))
    except Exception:
        pass
avoid_text = ""
if avoid and wave in ("wave2", "wave3"):
    avoid_text = "\n\nOther people have already produced the following mutants for this property; yours must be DIFFERENT (other code sites, other mechanisms, other inputs needed to manifest):\n" + "\n".join(avoid) + "\n"
print(f"""You are working ONLY inside the scratch git worktree {d} — a checkout of the Rust proc-macro crate frozenlib/derive-ex (crate sources in {d}/derive-ex/src, its test-suite in {d}/derive-ex-tests/tests, user documentation in {d}/doc/derive_ex.md). Do not read or write anything outside {d} (in particular never look at /verif, /repo or anything under /root/.claude). The machine is offline: always pass --offline to cargo.

Here is a semantic property that derive-ex is supposed to satisfy:

  {pid} — {p['title']}
  {p['statement']}
  (Quantification: {p['quantifier']['text']})

Your task: produce realistic *property-breaking changes* (mutants) to the derive-ex source code (files under {d}/derive-ex/src only) — the kind of subtle bug a maintainer could plausibly introduce in a refactoring — such that:
  1. the crate still compiles, and the existing test suite still passes completely:
       cd {d} && cargo nextest run --workspace --no-fail-fast --offline --test-threads 8      (expect: 346 passed)
  2. the property above is violated for some input;
  3. you have a demonstration: a small integration test file (put it at {d}/derive-ex-tests/tests/zz_demo.rs while you work) that FAILS (fails to compile when it should compile, compiles when it should not, or an assertion fails) with your change and PASSES on the unchanged code. If the violation is a compile failure / wrongly accepted program, the demo may instead be a tiny program plus the exact command that shows the difference.

Prefer changes that need something specific to manifest — an unusual input, a particular combination of two attributes, a specific trait subset, a multi-field/multi-variant shape, or two cooperating code sites that each look fine alone — NOT ones that any ordinary use would expose at once (those would be caught by the existing tests anyway). Each mutant should be small (a few lines).

""" + avoid_text + f"""Please produce 3 DIFFERENT mutants (different code sites / different mechanisms). For each mutant k = 1, 2, 3 deliver a directory {d}/MUTANTS/m<k>/ containing:
  - patch.diff : output of `git diff -- derive-ex/src` for that mutant alone (it must apply with `git apply` to a clean checkout);
  - demo.rs    : the demonstration test file (or demo.txt with program + command);
  - meta.json  : {{"property": "{pid}", "summary": "...what was changed...", "needs": "...what specific input/condition it needs to manifest...", "verified": "...exact commands you ran and their results (suite with mutant: N passed; demo with mutant: fails; demo without mutant: passes)..."}}
Verify all three claims yourself for each mutant (revert with `git checkout -- derive-ex/src` between mutants, and remove zz_demo.rs from the tests directory when you are done so that the worktree is clean apart from MUTANTS/). In your final answer, list the mutants with one line each.""")
