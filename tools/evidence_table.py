#!/usr/bin/env python3
"""Prints the DESIGN 9.1 / 9.1b table rows from /verif/evidence/*.json (quick) or from a thorough_all.sh log."""
import json, sys, re, os
CH = {"C01": "E filter, X", "C02": "E filter, X", "C03": "R (twin), X", "C04": "E (+R conformance)", "C05": "E (+R cross-check)",
      "C06": "E filter, X", "C07": "X", "C08": "X", "C09": "X", "C10": "E (rejection), X", "C11": "E (rejection), X",
      "C12": "R (twin), X", "C13": "R (no_std), X", "C14": "E (+R conformance)", "C15": "E BFS (+R conformance)",
      "C16": "E BFS (+R conformance)", "C17": "R (+X reflexivity probes)", "C18": "E (rejection), X",
      "C19": "E (+R conformance)", "C20": "E filter, R"}
def h(n):
    n = int(n)
    if n >= 10**9: return f"{n/1e9:.1f} G"
    if n >= 10**6: return f"{n/1e6:.1f} M"
    if n >= 10**4: return f"{n/1e3:.0f} k"
    return str(n)
root = os.path.dirname(os.path.dirname(os.path.abspath(__file__)))
if len(sys.argv) > 1:
    # thorough log(s)
    print("| id | states | terminal states | inner evaluations | real-pipeline executions | wall | max RSS |\n|---|---|---|---|---|---|---|")
    rows = {}
    for f in sys.argv[1:]:
        for l in open(f):
            m = re.match(r"THOROUGH (C\d+) rc=(\d+) wall=(\d+)s maxrss_kb=(\d+) :: .*states=(\d+) transitions=\d+ evaluations=(\d+) inner=(\d+) distinct_nontrivial=\d+ validated=(\d+) violations=(\d+)", l)
            if m:
                i, rc, wall, rss, st, ev, inner, val, viol = m.groups()
                rows[i] = f"| {i} | {h(st)} | {h(ev)} | {h(inner) if int(inner) else '-'} | {h(val)} | {wall} s | {int(rss)/1e6:.1f} GB |" + ("" if rc == "0" else f" rc={rc}")
    for i in sorted(rows): print(rows[i])
else:
    print("| id | channel(s) | terminal states (quick) | inner evaluations | real-pipeline executions | wall |\n|---|---|---|---|---|---|")
    tot = 0
    for n in range(1, 21):
        i = f"C{n:02d}"
        e = json.load(open(f"{root}/evidence/{i}.json")); c = e["coverage"]
        tot += e["wall_s"]
        print(f"| {i} | {CH[i]} | {h(c['evaluations'])} ({h(c['states'])} states) | {h(c['inner_evaluations']) if c['inner_evaluations'] else '-'} | {h(c['traces_validated_against_impl'])} | {e['wall_s']:.0f} s | tier={e['tier']} violations={e['violations']}")
    print(f"total wall {tot:.0f} s")
