#!/bin/bash
# usage: process_wave.sh <Cxx> [k...]   confirms the mutants /tmp/mut_<Cxx>/MUTANTS/m<k> in that scratch worktree and
# runs the quick check of the property against each (apply to /repo, check, revert); prints one block per mutant.
id=$1; shift; ks=("$@"); [ ${#ks[@]} -eq 0 ] && ks=(1 2 3)
WT=/tmp/mut_$id
for k in "${ks[@]}"; do
  MD=$WT/MUTANTS/m$k
  [ -f $MD/patch.diff ] || { echo "== $id m$k: no patch"; continue; }
  echo "== $id m$k: $(python3 -c "import json;print(json.load(open('$MD/meta.json'))['summary'][:300])")"
  /verif/tools/confirm_mutant.sh $WT $MD 2>&1 | tail -1
  /verif/tools/run_mutant.sh $MD/patch.diff $id 2>&1 | tail -3
done
