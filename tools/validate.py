#!/opt/veriftools/pyvenv/bin/python3
import json, jsonschema, glob, sys
m=json.load(open('/verif/MANIFEST.json')); s=json.load(open('/root/.vp/MANIFEST.schema.json'))
jsonschema.validate(m,s); print("manifest valid")
es=json.load(open('/root/.vp/EVIDENCE.schema.json'))
for f in sorted(glob.glob('/verif/evidence/*.json')):
    try:
        jsonschema.validate(json.load(open(f)), es); print("evidence valid:", f)
    except Exception as e:
        print("EVIDENCE INVALID", f, str(e)[:300]); sys.exit(1)
