#!/bin/bash
# Parallel version of selftest.sh: the kept mutants are sharded by property over K private copies of /verif, each with
# a scratch worktree of /repo HEAD of its own (nothing touches /repo or /verif/.work).
# usage: tools/selftest_par.sh <K> [seeded dir names...]   -> writes /verif/seeded/RESULTS.md
set -u
K=$1; shift
HEAD=$(git -C /repo rev-parse HEAD)
names=("$@"); if [ ${#names[@]} -eq 0 ]; then names=($(ls /verif/seeded | grep -E '^C[0-9]+-(w[0-9])?m[0-9]+$')); fi
ids=($(printf "%s\n" "${names[@]}" | sed 's/-.*//' | sort -u))
shard() {
  k=$1; WT=/tmp/selftest_wt_$k; CP=/tmp/selftest_verif_$k; OUT=/tmp/selftest_part_$k.md; : > $OUT
  git -C /repo worktree remove --force $WT 2>/dev/null; git -C /repo worktree add -q --detach $WT $HEAD || return 2
  rm -rf $CP; mkdir -p $CP; rsync -a --exclude .work --exclude .git --exclude replay /verif/ $CP/
  n=0
  for id in "${ids[@]}"; do
    n=$((n+1)); [ $((n % K)) -eq $k ] || continue
    for m in "${names[@]}"; do
      [ "${m%%-*}" = "$id" ] || continue
      p=/verif/seeded/$m/patch.diff
      git -C $WT checkout -q -- . ; if ! git -C $WT apply $p; then echo "| $m | $id | patch does not apply | | |" >> $OUT; continue; fi
      out=$(cd $CP && VERIF_REPO=$WT DX_NO_EVIDENCE=1 DX_FAIL_FAST=1 ./check $id --tier quick 2>&1); rc=$?
      viol=$(echo "$out" | grep -E "^$id tier" | sed -E 's/.*violations=([0-9]+).*/\1/')
      sym=$(echo "$out" | grep -E "^  [^ ]+ ::" | head -1 | sed -E 's/^  ([^ ]+) ::.*/\1/' | cut -c1-70)
      echo "| $m | $id | $rc | $viol | $sym |" >> $OUT
      git -C $WT checkout -q -- .
    done
    out=$(cd $CP && VERIF_REPO=$WT DX_NO_EVIDENCE=1 ./check $id --tier quick 2>&1); rc=$?
    echo "| (clean tree) | $id | $rc | $(echo "$out" | grep -E "^$id tier" | sed -E 's/.*violations=([0-9]+).*/\1/') | |" >> $OUT
  done
  git -C /repo worktree remove --force $WT; rm -rf $CP
}
for k in $(seq 0 $((K-1))); do shard $k & done
wait
OUT=/verif/seeded/RESULTS.md
{ echo "# Seeded mutants vs. checks"; echo; echo "Repo HEAD $HEAD; each patch applied to a scratch worktree, the quick check of the broken property run with VERIF_REPO pointing at it (exit 1 + VIOLATION expected; DX_FAIL_FAST ends the run at the first violation, so the violations column is 1 and not the number of violating cases of the full run), then reverted; lines \`(clean tree)\`: the same check on the clean worktree (exit 0 expected). Run in $K parallel shards by tools/selftest_par.sh."; echo; echo "| mutant | check | exit | violations | first symptom |"; echo "|---|---|---|---|---|"; cat /tmp/selftest_part_*.md | sort -t'|' -k3,3 -k2,2; } > $OUT
rm -f /tmp/selftest_part_*.md
bad=$(grep -E '^\| C' $OUT | awk -F'|' '$4 != " 1 "' | wc -l); badclean=$(grep -E '^\| \(clean' $OUT | awk -F'|' '$4 != " 0 "' | wc -l)
echo "selftest done: mutants not reported=$bad clean-tree failures=$badclean"
