#!/usr/bin/env python3
"""note_mutant.py <seeded name> <missed|caught> <text>  -> records in seeded/<name>/meta.json how the quick check of the property fared at first and what was strengthened"""
import json, sys
name, first, text = sys.argv[1], sys.argv[2], sys.argv[3]
p = '/verif/seeded/%s/meta.json' % name
m = json.load(open(p))
m['first_run_of_the_quick_check'] = 'missed' if first == 'missed' else 'reported'
if text:
    m['strengthening' if first == 'missed' else 'note'] = text
json.dump(m, open(p, 'w'), indent=1)
