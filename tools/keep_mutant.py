#!/usr/bin/env python3
"""keep_mutant.py <mutant dir> <seeded name> <confirm line> [detected_by...]  -> /verif/seeded/<name>/"""
import json, os, shutil, sys
md, name, confirm = sys.argv[1], sys.argv[2], sys.argv[3]
det = sys.argv[4:]
dst = os.path.join('/verif/seeded', name)
os.makedirs(dst, exist_ok=True)
for f in os.listdir(md):
    shutil.copy(os.path.join(md, f), os.path.join(dst, f))
meta = json.load(open(os.path.join(md, 'meta.json')))
out = {
    "breaks_property": meta.get("property"),
    "summary": meta.get("summary"),
    "needs_to_manifest": meta.get("needs"),
    "author": "independent sub-agent given only the property text and a scratch worktree",
    "author_verification": meta.get("verified"),
    "my_confirmation": confirm,
    "checks_run_against_it": det,
}
json.dump(out, open(os.path.join(dst, 'meta.json'), 'w'), indent=1)
print("kept", dst)
