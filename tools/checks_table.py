# Table of registered checks (exec'd by mkmanifest.py).  A property is added here only after
# its check has passed on the (repaired) tree and failed on seeded mutants.
NOT_YET = {}

reg("C05",
    "bounded exhaustive enumeration of all 3136 per-field attribute combinations x placements x entry points x derived sets on the real expander, against a reference acceptance model",
    "Every terminal state of the stated choice tree is expanded by the repository's own entry functions and the set of traits that turn into compile_error! is compared with the documented acceptance rules; the <=1-attribute slice is also pushed through real rustc and its diagnostics compared with the in-process prediction. Exhaustive within the alphabet, never sampled.",
    "Bound: one configured field per item (first of two), 3 placements, 2 entry points, all-five slice plus 11 supertrait-closed subsets (quick: subsets on the named-struct/attribute slice only).",
    "DESIGN.md 5/C05")

reg("C04",
    "bounded exhaustive enumeration of bound(...) option assignments to all priority levels (deviation-bounded over 6 options, full products over 3 options) on the real expander, against the reference resolution rule ref_bounds",
    "Every assignment within the bound is expanded by the repository's own entry functions (both entry points) and the where-clause of every generated impl is compared, as a set of predicates, with the documented nine-level resolution (helper / per-trait / shared x type / variant / field; one slot per recognised comparison helper attribute at each placement; optional key placement). Exhaustive within the bound, never sampled.",
    "Bound: probe shapes enum X<T>{A(F1<T>,F2<T>),B(F3<T>)} / struct X<T>(F1<T>,F2<T>) with slots on the type, variant A and field A.0, plus enum X<T>{U,B(F3<T>)} with the variant slots on the field-less variant U; quick: <=2 non-absent levels over 6 options + full 3-option products for 9 small configurations; thorough: <=3 non-absent levels + more full products. The textual form of default/Type bounds is calibrated on the implementation (semantic adequacy is C03's).",
    "DESIGN.md 5/C04")

reg("C01",
    "bounded exhaustive enumeration of type definitions x accepted helper-attribute placements x trait subsets x entry points, compiled with the real proc-macro and executed on ALL ordered pairs of the full value product, against a reference interpreter of the documented lexicographic rule",
    "Each terminal state is a complete program compiled by real rustc against the repository's proc-macro dylib and executed; the ==, !=, partial_cmp and cmp results for every ordered pair of the enumerated value domain are compared with ref_eq/ref_partial_cmp/ref_cmp (documented precedence with distinguishable key/by functions per attribute, incl. a NaN-like partial key). Exhaustive within the bound, never sampled.",
    "Bound: M1 single configured field over all accepted combinations of the 784 (ord,partial_ord,eq,partial_eq) alphabet in 3 (quick) / 16 (thorough) container x context positions; M2 15 trait subsets x 2 entry points; M3 up to 3/4 fields over a 6/8-letter alphabet, 4 shapes, generic and partially ordered field types; value domains 6 (configured) / 2-4 (others); one key may be the identity `$`; generic M3 types also with an explicit shared bound(..).",
    "DESIGN.md 5/C01")
reg("C02",
    "bounded exhaustive enumeration of the 3136 per-field attribute combinations (one consistent key) x supertrait-closed trait subsets x containers, every combination the real expander accepts compiled and executed, model-free coherence laws checked on ALL pairs and triples of the value domain",
    "Every combination accepted by the repository's expander is compiled with the real proc-macro and executed; == / != / partial_cmp / cmp tables and recorded hash feeds over the complete 12-15 value domain are checked against the Eq/Ord/Hash coherence laws (pairs, triples for transitivity). Exhaustive within the alphabet, never sampled.",
    "Bound: one configured field (first of 2 in a tuple struct / last of 2 in an enum variant) + plain neighbours; quick: full alphabet on the all-five struct slice, {-,ignore,key,by} alphabet on the 10 other subsets and the enum container; thorough: full alphabet everywhere, both entry points on the all-five slice.",
    "DESIGN.md 5/C02")
reg("C06",
    "bounded exhaustive enumeration of (hash, eq, ord) attribute combinations x trait sets x containers x entry points and multi-field shapes, compiled with the real proc-macro and executed on EVERY value with a recording Hasher, against reference feeds",
    "Each terminal state is compiled by real rustc against the repository's proc-macro and executed; the recorded write_* sequence for every value of the enumerated domain must equal the concatenation of the reference-selected effective inputs, and for all same-variant pairs feeds are equal iff the reference effective-input vectors are equal. Exhaustive within the bound, never sampled.",
    "Bound: 112 combinations x 4 trait sets x 3 (quick) / 16 (thorough) container positions x 2 entry points; multi-field shapes with 1..3/4 fields over a 7-letter alphabet; one key may be the identity `$`; I4 (no discriminant in the feed).",
    "DESIGN.md 5/C06")

reg("C07",
    "bounded exhaustive enumeration of struct/enum shapes x field flavours x entry points, compiled with the real proc-macro and executed on every variant and ALL ordered variant pairs with call-recording field types, against the reference clone / clone_from traces",
    "Each shape is compiled by real rustc against the repository's proc-macro and executed; the log of Clone::clone / clone_from calls (with unique field identities), the resulting value and the untouched source are compared with the reference for clone of every variant and clone_from of every ordered pair of variants. A program that fails to compile is a violation. Exhaustive within the shape bound.",
    "Bound: quick Sh(3 variants, 2 fields), thorough Sh(4, 3); flavours: concrete Rec fields, generic X<T> (T / RecG<T>), derive_ex(Copy, Clone) with Copy + logging-Clone fields, explicit Clone(bound(T: Clone)) on the type or the first field, raw-identifier field names; non-alphabetical field names.",
    "DESIGN.md 5/C07")
reg("C08",
    "exhaustive enumeration of the 22 operator traits x struct body shapes x field flavours x entry points, compiled with the real proc-macro and executed on all 9 operand pairs in every owned/reference form, against the field-wise reference",
    "Each case is compiled by real rustc against the repository's proc-macro and executed; results, per-field call logs with (lhs_is_ref, rhs_is_ref) and the unchanged borrowed operands are compared with the reference for every form of the trait. A program that fails to compile is a violation. Exhaustive within the bound.",
    "Bound: quick 6 body shapes, thorough all 11 (0..4 fields); flavours Fm (free monoid recording operand order), generic T := Fm, Wrapping<i8> (non-shift operators), raw-identifier field names, the trait in a second stacked derive_ex list.",
    "DESIGN.md 5/C08")
reg("C09",
    "exhaustive enumeration of operators x base forms of the user impl x Rhs spellings x requested sets x generic/non-generic, compiled with the real proc-macro and executed on all 9 operand pairs in every generated form, against the forwarding reference",
    "Each case is compiled by real rustc against the repository's proc-macro and executed; results, the multiset of user-impl calls and operand clones, and unchanged borrowed operands are compared with the reference for every form that must exist. A program that fails to compile is a violation (generics, where-clause, Output and Self carry-over). Exhaustive within the bound.",
    "Bound: quick Sub and Shl in full + the other 8 operators on the owned base with {Op, OpAssign}, both list orders (Op, OpAssign / OpAssign, Op); thorough the full product.",
    "DESIGN.md 5/C09")
reg("C10",
    "bounded exhaustive enumeration of shapes x per-field marks {plain, ignore, transparent} x generic x entry points, compiled with the real proc-macro and executed on every value x 14 format specs against a std-derived twin; rejection of two transparent fields checked on the in-process expander",
    "Each case is compiled by real rustc against the repository's proc-macro and executed; for every value of the per-field domains and each of 14 formatter-flag combinations the string must equal what #[derive(Debug)] prints for the twin with the ignored fields deleted (or the transparent field alone). Cases with two transparent fields in one struct/variant must be rejected by the expander. Exhaustive within the bound.",
    "Bound: quick Sh(2,2) with <=2 marked fields, thorough Sh(3,3) with <=3 marked fields (<=6 fields in 3-variant enums); field types i32 / &str / f64 / nested struct; transparent+ignore on one field is only explored where unambiguous (rejection); raw-identifier field names; Debug(bound(T: Debug)) on generic types.",
    "DESIGN.md 5/C10")

reg("C14",
    "bounded exhaustive enumeration of items with interleaved foreign / helper-named / derive_ex attributes at type, variant and field placement x derived lists x visibility x generics, plus a family of failing inputs, expanded by the real expander and compared token-for-token with the expected re-emitted item",
    "Every terminal state is expanded by the repository's own attribute-macro entry function; the first output item must equal the input minus exactly the attributes the documentation assigns to the derived traits (strict, also when a derivation then fails), and on inputs whose derive list cannot be understood or whose item kind is unsupported the item must still be present with its foreign content and structure intact next to a compile_error!. Exhaustive within the bound.",
    "Bound: quick <=2 deviations (attributes placed + non-default visibility/generics) over a 21-attribute pool, sequences up to length 3, plus all interleavings of <=3 attributes of a 6-letter pool at one placement; thorough <=3 deviations and <=4-attribute interleavings; 44 failing / unsupported / impl inputs; 12 behavioural survivor programs through real rustc (repr via size/alignment/discriminants, cfg_attr-gated and neighbouring std derives, visibility, generic defaults, where-clause, non_exhaustive, allow); the <=1-attribute slice through real rustc with dump (pipeline conformance).",
    "DESIGN.md 5/C14")
reg("C15",
    "exhaustive enumeration, per seed item (generators + test-suite/documentation corpus), of the other entry point, all splits of the trait list (breadth-first over split operations with a seen-set), all sub-lists containing a trait whose helper attributes all affect it, permutations, and shared-bound splits; token equality of every trait's impls with the merged baseline on the real expander",
    "Every variant is expanded by the repository's own entry functions and each trait's generated items are compared token-for-token with the merged attribute-macro baseline; impls must also appear in listing order. Exhaustive over the seed set and relation instances.",
    "Bound: ~900 seeds (quick) incl. every derive_ex item of the test-suite and docs and all pairs of the 9 basic traits on 4 plain items; lists up to 9 traits (all compositions), permutations capped at 24 (quick) / 120 (thorough) per seed.",
    "DESIGN.md 5/C15")

reg("C11",
    "bounded exhaustive enumeration of shapes x default-variant selections x per-field #[default(expr)] expression kinds x type-level values x bound-argument flavours x entry points, compiled with the real proc-macro and executed against a reference constructor; invalid selections checked on the in-process expander",
    "Each case is compiled by real rustc against the repository's proc-macro and executed; default() must print (Debug) exactly like the reference constructor built from the documented rule (type-level value wins; else struct / #[default] variant / only variant; Into exactly for string literals and paths - field types make a missing or superfluous Into a compile error, which counts as a violation). Enums with no or several default variants and a value on a variant attribute must expand to compile_error!. Exhaustive within the bound.",
    "Bound: three generators (per-field expressions: 16 kinds x 3 bodies x struct/enum, <=1 (quick) / <=2 (thorough) attributed fields; variant selection: <=2/3 variants x 3/5 variant kinds x every marking; type-level values: 6 shapes x 3 value kinds x markings), each x {no bound args, bound(T: Copy, ..), bound(T)} x 2 entry points.",
    "DESIGN.md 5/C11")
reg("C16",
    "explicit-state breadth-first search over structure-aware mutations of the seed corpus (every derive_ex item of the test-suite and documentation + generator output) with a seen-set on canonical token text; every reached state expanded twice by the real expander",
    "Every state (entry point, argument list, item) reached within the depth bound is expanded twice in-process under catch_unwind: no panic, the output parses as Rust items, every macro item is a compile_error! with a non-empty message, and both expansions are textually identical (fresh RandomState per expansion exposes hash-order dependence). States, transitions and per-depth counts are reported; a state cap sets exhaustive=false if hit.",
    "Bound: depth 1 (quick, ~45k states) / depth 2 (thorough, ~6M states) over delete/duplicate/swap/replace of attributes, arguments (one nesting level), fields, variants, generic parameters; where/generics deletion; renaming to raw / generator-used / non-ASCII identifiers; odd trait paths on impl items (`Add<>`, lifetime / const arguments, non-ASCII names); a 15-entry argument pool incl. unknown and non-ASCII trait names; entry switch; unsupported item kinds. Each state runs under a watchdog (60 s): a hang is reported as expansion-does-not-terminate with a replay file.",
    "DESIGN.md 5/C16")
reg("C19",
    "exhaustive enumeration, per seed item, of dump placements (shared, each single trait, first+last, all-but-first, on impl items, on one of two derive_ex lists) x entry points on the real expander, comparing the dumped text token-for-token with the code generated without dump",
    "Every placement is expanded by the repository's own entry functions; each dumped trait's slot must be a compile_error! whose text after the `dump:` header re-lexes to exactly the tokens generated without dump, undumped traits and the item must be unchanged, and errors of rejected traits must stay the same.",
    "Bound: ~900 seeds (generators + corpus) x up to 9 placements x 2 entry points; token comparison ignores spacing. The rustc rendering of the message is not compared (channel E).",
    "DESIGN.md 5/C19")

reg("C17",
    "bounded exhaustive enumeration of containers x 1..3 fields x field types {Eq, PartialEq-only, generic} x (eq, ord) attribute pairs x bound modes x PartialEq hand-written/co-derived (also with a co-derived Hash whose fields are all #[hash(ignore)]) x entry points, every case compiled metadata-only by real rustc against the real proc-macro; accept/reject compared with the reference",
    "Each terminal state is a complete program compiled by real rustc; the reference says reject iff some field taking part in equality (not ignored, not `by`; precedence eq before ord) has a non-Eq effective component; a reject-predicted case that compiles, or an accept-predicted case with a diagnostic, is a violation. The iterative batch protocol gives every case its own verdict.",
    "Bound: quick 1-2 fields (8236 cases), thorough up to 3 fields; key expressions `$ as u16` / `$.to_bits()` (Eq) and `$ as f32` / `$ * 2.0` (non-Eq).",
    "DESIGN.md 5/C17")
reg("C18",
    "exhaustive enumeration of 13 single-field struct definitions x tuple/named/raw-named field x 4 trait-list flavours x entry points, compiled with the real proc-macro and executed (address identity, Target TypeId, write-through in both directions); every other arity and enums checked for rejection on the in-process expander",
    "Each case is compiled by real rustc against the repository's proc-macro and executed; failing to compile is a violation. Rejection of 0-, 2-, 3-, 4-field structs and enums is checked for each of Deref, DerefMut alone and both orders through both entry points.",
    "Bound: 282 executed cases + 112 rejection cases; field types u8, String, Box<[u8]>, Vec<T>, T, &'a T, Box<T> (T: ?Sized), [u8; N], (T, U); generics with inline bounds, defaults, const parameters (also declared before type parameters) and where-clauses; list flavours Deref / Deref, DerefMut / DerefMut, Deref / Deref, DerefMut, bound(T: Copy); field named r#type.",
    "DESIGN.md 5/C18")

reg("C20",
    "bounded exhaustive enumeration of trait lists x shapes (incl. empty / single-variant enums) x generics options (type/const/lifetime parameters, inline bounds, defaults, where-clauses with Self incl. nested, hostile names H and 'a, ?Sized tail) x field types over the parameters x attribute flavours x entry points, plus every case of the C01/C06 comparison generators; each case the in-process expander accepts is compiled metadata-only by real rustc against the real proc-macro",
    "Cases whose in-process expansion contains a compile_error! are set aside (that is derive_ex's own message); every other case is compiled by real rustc with warnings on: any error attributed to the case is a violation; for the check's own grammar so is every warning attributed to the case (wherever its span lies) unless the twin deriving the same traits with the standard derive draws the same lint; for the borrowed C01/C06 programs warnings count when their span lies in derive_ex's output. User-written pieces are well-typed and warning-free by construction. One recorded known finding (ambiguous_wide_pointer_comparisons on a derived PartialEq over a raw pointer to a ?Sized parameter) is printed as KNOWN-FINDING. Exhaustive within the bound.",
    "Bound: quick ~12.9k cases (18 lists x 10 shapes x 15 generics options with the field-type variation on <T>; 6 comparison lists x 5 shapes x 8 attribute flavours x positions; 23 fixed flavours (Debug/Default bounds, by on unsized tails, variant-level stopping bounds); C01/C06 quick generators); thorough adds all field-type variations and both entry points everywhere. Lints: rustc default warn level only (no clippy).",
    "DESIGN.md 5/C20")

reg("C13",
    "bounded exhaustive enumeration of 14 base programs (every derivable trait, with and without helper attributes, structs / enums / user impl, type / const / lifetime parameters) x renamings of one (thorough: two) role(s) to every name of a hostile dictionary x scopes {plain, prelude- and core/std/alloc-shadowing module, #![no_std]}, compiled with the real proc-macro and executed; metamorphic oracle against the neutral program",
    "Every variant is compiled by real rustc against the repository's proc-macro (no_std variants metadata-only) and executed; it must compile and print exactly the behaviour trace (comparison tables, recorded hash feeds, clone / default / operator results, Debug-equals-std-twin flags) of the neutral program. Exhaustive within the dictionary and bound.",
    "Bound: dictionary = 22 names the expansion introduces (incl. pre-fix ones), 3 raw keywords, 14 prelude names, 4 lifetimes; roles type / field / variant / type parameter / const parameter / lifetime; quick: full dictionary on the three all-traits programs in plain + shadowed scope, generator names on the rest (1919 cases); thorough: everything incl. two simultaneous renamings on the all-traits programs (74777 cases). Names starting with __ are excluded (reserved).",
    "DESIGN.md 5/C13")

reg("C12",
    "bounded exhaustive enumeration of shapes (incl. enums without variants) x generics options x naming (raw identifiers) x extra attributes x supertrait-closed derive lists x entry points, compiled with the real proc-macro next to a std-derived twin and executed on every value / ordered pair x 14 format specs",
    "The std-derived twin is compiled alone first; where it compiles, the program deriving the listed traits with derive_ex (the remaining ones with the standard derive on the same type) must compile too and Clone / clone_from, Debug (14 specs), Default, ==, !=, partial_cmp, <, cmp must agree with the twin on all values / ordered pairs, Hash feeds must be equal whenever == holds, Copy must be implemented. Exhaustive within the bound.",
    "Bound: quick Sh(2 variants, 2 fields) x 12 lists + 6 representative shapes x one option at a time (8 generics options, raw identifiers incl. the type parameter, repr(C), non_exhaustive); thorough Sh(3,3) and 9 shapes x two options. Lists are supertrait-closed because a derive_ex impl (field-type bounds) cannot sit on a std-derived supertrait impl (parameter bounds) - see DESIGN.md.",
    "DESIGN.md 5/C12")

reg("C03",
    "bounded exhaustive enumeration of trait forms x containers x 1..3 fields x field types over the parameters x used/unused mechanisms x declared where-clause x entry points; each case compiled with the real proc-macro and executed: the applicability of the derived impl over EVERY instantiation of the parameters by probe types is compared with a twin carrying the reference where-clause",
    "For every terminal state the derived impl and a hand-written marker impl `where W_ref` on a structurally identical twin are probed (impls!) on every instantiation of the parameters by probe types implementing chosen subsets of the traits / operator reference forms; rustc's trait solver evaluates both, so equivalent but differently written bounds raise no alarm. A twin that compiles while the derive_ex program does not is a violation (a needed bound is missing).",
    "Bound: quick 14 trait forms (9 plain traits, Add / Shl in 4 forms, SubAssign in 2, Neg / Not in 2), 12 field types, <=2 fields (27k cases, ~25 s); thorough all 31 trait forms, 16 field types, <=3 fields. Probe domains: {Yes, No}, {Yes, No, Own(owned operator forms only)}, {Yes, AY, AN} for T: Tr; U in {Yes, No}; N = 2; 'a = 'static. Declared bounds mentioning Self (where Self: Marker, Option<Self>: Marker, T: PartialEq<Vec<Self>>) are compile-only cases.",
    "DESIGN.md 5/C03")
