# Table of registered checks (exec'd by mkmanifest.py).  A property is added here only after
# its check has passed on the (repaired) tree and failed on seeded mutants.
NOT_YET = {}

reg("C05",
    "bounded exhaustive enumeration of all 3136 per-field attribute combinations x placements x entry points x derived sets on the real expander, against a reference acceptance model",
    "Every terminal state of the stated choice tree is expanded by the repository's own entry functions and the set of traits that turn into compile_error! is compared with the documented acceptance rules; the <=1-attribute slice is also pushed through real rustc and its diagnostics compared with the in-process prediction. Exhaustive within the alphabet, never sampled.",
    "Bound: one configured field per item (first of two), 3 placements, 2 entry points, all-five slice plus 11 supertrait-closed subsets (quick: subsets on the named-struct/attribute slice only).",
    "DESIGN.md 5/C05")
