# Table of registered checks (exec'd by mkmanifest.py).  A property is added here only after
# its check has passed on the (repaired) tree and failed on seeded mutants.
NOT_YET = {}

reg("C05",
    "bounded exhaustive enumeration of all 3136 per-field attribute combinations x placements x entry points x derived sets on the real expander, against a reference acceptance model",
    "Every terminal state of the stated choice tree is expanded by the repository's own entry functions and the set of traits that turn into compile_error! is compared with the documented acceptance rules; the <=1-attribute slice is also pushed through real rustc and its diagnostics compared with the in-process prediction. Exhaustive within the alphabet, never sampled.",
    "Bound: one configured field per item (first of two), 3 placements, 2 entry points, all-five slice plus 11 supertrait-closed subsets (quick: subsets on the named-struct/attribute slice only).",
    "DESIGN.md 5/C05")

reg("C04",
    "bounded exhaustive enumeration of bound(...) option assignments to all priority levels (deviation-bounded over 6 options, full products over 3 options) on the real expander, against the reference resolution rule ref_bounds",
    "Every assignment within the bound is expanded by the repository's own entry functions (both entry points) and the where-clause of every generated impl is compared, as a set of predicates, with the documented nine-level resolution (helper / per-trait / shared x type / variant / field; one slot per recognised comparison helper attribute at each placement; optional key placement). Exhaustive within the bound, never sampled.",
    "Bound: probe shapes enum X<T>{A(F1<T>,F2<T>),B(F3<T>)} / struct X<T>(F1<T>,F2<T>) with slots on the type, variant A and field A.0; quick: <=2 non-absent levels over 6 options + full 3-option products for 9 small configurations; thorough: <=3 non-absent levels + more full products. The textual form of default/Type bounds is calibrated on the implementation (semantic adequacy is C03's).",
    "DESIGN.md 5/C04")
