#!/bin/bash
# One-off measurement (NOT a registered check): which lines / regions of /repo/derive-ex/src do the
# checks execute?  Private copy of /verif under /tmp, nightly toolchain (llvm-tools live there),
# -Cinstrument-coverage on dxlib (in-process copy of the sources), the real proc-macro and dxmc only.
# usage: tools/coverage.sh [tier] [ids...]   -> /verif/seeded/COVERAGE.txt (per-file summary + uncovered lines)
set -u
TIER=${1:-quick}; shift || true
IDS=("$@"); [ ${#IDS[@]} -eq 0 ] && IDS=($(seq -f "C%02g" 1 20))
CP=/tmp/cov_verif; PROF=/tmp/cov_prof
rm -rf $CP $PROF; mkdir -p $CP $PROF; rsync -a --exclude .work --exclude .git --exclude replay --exclude seeded /verif/ $CP/
cat > $CP/rustc_wrap.sh <<'W'
#!/bin/bash
# $1 = rustc, rest = args
r=$1; shift
case " $* " in
  *" --crate-name dxlib "*|*" --crate-name derive_ex "*|*" --crate-name dxmc "*) exec "$r" "$@" -Cinstrument-coverage ;;
  *) exec "$r" "$@" ;;
esac
W
chmod +x $CP/rustc_wrap.sh
export RUSTUP_TOOLCHAIN=nightly RUSTC_WRAPPER=$CP/rustc_wrap.sh LLVM_PROFILE_FILE=$PROF/dx-%8m.profraw DX_NO_EVIDENCE=1
BIN=$(dirname $(rustup which rustc))/../lib/rustlib/x86_64-unknown-linux-gnu/bin
for id in "${IDS[@]}"; do
  (cd $CP && ./check $id --tier $TIER 2>&1 | grep -E "^$id tier|MACHINERY|VIOLATION" | head -3)
done
$BIN/llvm-profdata merge -sparse $PROF/*.profraw -o $PROF/all.profdata || exit 2
SO=$(ls $CP/.work/target/release/deps/libderive_ex-*.so | head -1)
DXMC=$CP/.work/target/release/dxmc
mkdir -p /verif/coverage; OUT=/verif/coverage/COVERAGE.txt
$BIN/llvm-cov export $DXMC -instr-profile=$PROF/all.profdata 2>/dev/null > $PROF/e.json
$BIN/llvm-cov export $SO -instr-profile=$PROF/all.profdata 2>/dev/null > $PROF/so.json
python3 - "$TIER" "${IDS[*]}" > $OUT <<'PY'
import json, sys
def load(p, key):
    d = json.load(open(p)); reg = {}; lines = {}
    for f in d['data'][0]['files']:
        fn = f['filename']
        if key not in fn: continue
        rel = fn.split(key)[1]
        for s in f['segments']:
            line, col, count, has, entry, gap = s[:6]
            if has and entry and not gap:
                reg[(rel, line, col)] = reg.get((rel, line, col), 0) + count
    return reg
e = load('/tmp/cov_prof/e.json', '/dxsrc/'); so = load('/tmp/cov_prof/so.json', '/derive-ex/src/')
keys = sorted(set(e) | set(so))
print("# code regions of derive-ex/src executed by the %s tier of: %s" % (sys.argv[1], sys.argv[2]))
print("# (llvm source-based coverage; a region counts as executed if either the in-process copy inside dxmc")
print("#  [channel E] or the real proc-macro dylib loaded by rustc [channels R, X] executed it)")
files = sorted(set(k[0] for k in keys))
tot = [0, 0, 0, 0]
for f in files:
    ks = [k for k in keys if k[0] == f]
    ce = sum(1 for k in ks if e.get(k, 0) > 0); cs = sum(1 for k in ks if so.get(k, 0) > 0)
    cb = sum(1 for k in ks if e.get(k, 0) > 0 or so.get(k, 0) > 0)
    print("%-28s regions=%5d  in-process=%5d  dylib=%5d  either=%5d (%.2f%%)" % (f, len(ks), ce, cs, cb, 100.0 * cb / len(ks)))
    for i, v in enumerate((len(ks), ce, cs, cb)): tot[i] += v
print("%-28s regions=%5d  in-process=%5d  dylib=%5d  either=%5d (%.2f%%)" % ("TOTAL", tot[0], tot[1], tot[2], tot[3], 100.0 * tot[3] / tot[0]))
print("\n# regions executed by neither channel:")
src = {}
for k in keys:
    if e.get(k, 0) == 0 and so.get(k, 0) == 0:
        rel, line, col = k
        if rel not in src: src[rel] = open('/repo/derive-ex/src/' + rel).read().split('\n')
        print("%s:%d:%d  %s" % (rel, line, col, src[rel][line - 1].strip()[:110]))
PY
echo "report: $OUT"
rm -rf $CP $PROF
