#!/bin/bash
# usage: confirm_mutant.sh <scratch worktree> <mutant dir>
# Confirms in the scratch worktree (never in /repo): patch applies to current /repo HEAD, crate builds,
# the 346-test suite still passes with it, the demonstration discriminates mutant / clean.
set -u
WT=$1; MD=$2
HEAD=$(git -C /repo rev-parse HEAD)
cd "$WT" || exit 2
git checkout -q -- . ; git checkout -q --detach "$HEAD" || exit 2
rm -f derive-ex-tests/tests/zz_demo.rs
suite() { cargo nextest run --workspace --no-fail-fast --offline --test-threads 8 2>&1 | grep -E "Summary|passed|failed" | tail -1; }
demo() { # returns 0 if the demo builds and passes
  if [ -f "$MD/demo_program.rs" ]; then cp "$MD/demo_program.rs" derive-ex-tests/tests/zz_demo.rs; else cp "$MD/demo.rs" derive-ex-tests/tests/zz_demo.rs; fi
  cargo test --offline -p derive-ex-tests --test zz_demo --no-run >/tmp/demo_out.$$ 2>&1 || { rm -f derive-ex-tests/tests/zz_demo.rs; return 2; }
  cargo test --offline -p derive-ex-tests --test zz_demo >/tmp/demo_out.$$ 2>&1; local rc=$?
  rm -f derive-ex-tests/tests/zz_demo.rs; [ $rc -eq 0 ] && return 0 || return 1; }
git apply "$MD/patch.diff" || { echo "RESULT (demo rc: 0 pass, 1 test failed, 2 does not compile) $MD: patch does not apply"; exit 1; }
S=$(suite)
demo; WITH=$?
git checkout -q -- derive-ex/src
demo; WITHOUT=$?
rm -f /tmp/demo_out.$$
if [ -f "$MD/demo_program.rs" ]; then KIND=inverse; OK=$([ $WITH -ne 2 ] && [ $WITHOUT -eq 2 ] && echo yes || echo no)
else KIND=normal; OK=$([ $WITH -ne 0 ] && [ $WITHOUT -eq 0 ] && echo yes || echo no); fi
echo "RESULT (demo rc: 0 pass, 1 test failed, 2 does not compile) $MD: suite_with_mutant=[$S] demo_kind=$KIND demo_rc_with=$WITH demo_rc_without=$WITHOUT confirmed=$OK"
